---- MODULE MC_Whiteout_q ----
EXTENDS MC_Whiteout
NS == { <<"a">>, <<"a", "_wo">>, <<"_wo">>, <<"b">> }
NSplain == { <<"a">>, <<"a", "b">>, <<"b">> }
ASSUME PrintT(<<"reserved-name collision exists", SomeBlock>>)
====
