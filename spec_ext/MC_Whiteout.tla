---------------------------- MODULE MC_Whiteout ----------------------------
EXTENDS Whiteout
CONSTANT Depth
RECURSIVE PathsUpTo(_)
PathsUpTo(n) == IF n = 0 THEN {<<>>} ELSE PathsUpTo(n - 1) \cup {Append(p, x) : p \in PathsUpTo(n - 1), x \in NameSet}
All == PathsUpTo(Depth)
VARIABLE p
Init == p \in All
Next == UNCHANGED p
Spec == Init /\ [][Next]_p

\* distinct paths have distinct marker files
MarkersInjective == \A q \in All : MarkerPath(p) = MarkerPath(q) => p = q
\* a marker never sits where another marker needs a directory unless the blocked path uses a reserved name;
\* and exactly then: q passes through the "_wo"-sibling of p
BlocksOnlyReserved == \A q \in All : Blocks(p, q) => Reserved(q)
BlocksExactly ==
  \A q \in All : Blocks(p, q) <=>
     \E i \in 1..(Len(q) - 1) : SubSeq(q, 1, i) = (IF p = <<>> THEN <<<<Wo>>>> ELSE Parent(p) \o <<Suffixed(Last(p))>>)
\* the bound is not vacuous: with reserved names in the universe the collision exists
SomeBlock == \E a \in All, b \in All : Blocks(a, b)
=============================================================================
