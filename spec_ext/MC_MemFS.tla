------------------------------ MODULE MC_MemFS ------------------------------
(***************************************************************************)
(* The flat string-keyed map of MemoryFS refines Level A's tree: for EVERY *)
(* well-formed tree over names that are prefixes of one another, every     *)
(* path of the universe (and the root):                                    *)
(*   KeysInjective   distinct paths have distinct keys; ParentKey/FileName *)
(*                   invert KeyOf                                          *)
(*   ReadDirRefines  the prefix scan returns exactly the names of          *)
(*                   Children(t, p), with Level A's outcome class          *)
(*   RemoveDirRefines / CreateDirRefines / RemoveFileRefines /             *)
(*   CreateFileRefines  outcome class allowed by Level A and resulting     *)
(*                   flat map = flat map of Level A's result tree          *)
(*   LookupRefines   exists / metadata answer from the map = Level A kind  *)
(*   FlatWellFormed  C03 on the representation (parent key is a dir)       *)
(***************************************************************************)
EXTENDS MemFS
CONSTANT Depth
RECURSIVE PathsUpTo(_)
PathsUpTo(n) == IF n = 0 THEN {<<>>} ELSE PathsUpTo(n - 1) \cup {Append(p, x) : p \in PathsUpTo(n - 1), x \in NameSet}
U == PathsUpTo(Depth) \ {<<>>}
T == INSTANCE VfsTree WITH Universe <- U

Nodes == {T!Absent, T!Dir, T!File(<<>>)}
VARIABLE t
Init == t \in {x \in [U -> Nodes] : T!WellFormed(x)}
Next == UNCHANGED t
Spec == Init /\ [][Next]_t

\* the flat map of a tree (root key "" included, as MemoryFsImpl::new inserts it)
Flat(x) == LET ps == T!Present(x) \cup {<<>>} IN
           [k \in {KeyOf(p) : p \in ps} |-> LET p == CHOOSE q \in ps : KeyOf(q) = k IN T!Kind(x, p)]
KeysOf(x) == {KeyOf(p) : p \in T!Present(x) \cup {<<>>}}

KeysInjective ==
  /\ \A p, q \in T!AllPaths : KeyOf(p) = KeyOf(q) => p = q
  /\ \A p \in U : ParentKey(KeyOf(p)) = KeyOf(Parent(p)) /\ FileName(KeyOf(p)) = Last(p)

ReadDirRefines ==
  \A p \in T!AllPaths :
    LET r == ReadDir(Flat(t), KeyOf(p)) IN
    IF T!IsDirAt(t, p) THEN r.cls = "ok" /\ r.v = {Last(q) : q \in T!Children(t, p)}
    ELSE IF T!Kind(t, p) = "none" THEN r.cls = "notfound"
    ELSE r.cls = "err"

RemoveDirRefines ==
  \A p \in U :
    LET r == RemoveDir(Flat(t), KeyOf(p))
        a == T!RemoveDir(t, p) IN
    /\ r.cls \in a.allowed
    /\ r.keys = KeysOf(a.t) /\ r.files = Flat(a.t)

CreateDirRefines ==
  \A p \in U :
    LET r == CreateDir(Flat(t), KeyOf(p))
        a == T!CreateDir(t, p) IN
    /\ r.cls \in a.allowed
    /\ r.keys = KeysOf(a.t) /\ r.files = Flat(a.t)

RemoveFileRefines ==
  \A p \in U :
    LET r == RemoveFile(Flat(t), KeyOf(p))
        a == T!RemoveFile(t, p) IN
    r.cls \in a.allowed /\ r.files = Flat(a.t)

CreateFileRefines ==
  \A p \in U :
    LET r == CreateFile(Flat(t), KeyOf(p))
        a == T!CreateFile(t, p, <<>>) IN
    r.cls \in a.allowed /\ r.files = Flat(a.t)

LookupRefines ==
  \A p \in T!AllPaths :
    /\ Exists(Flat(t), KeyOf(p)) = (T!Kind(t, p) # "none")
    /\ MetadataKind(Flat(t), KeyOf(p)) = (IF T!Kind(t, p) = "none" THEN "notfound" ELSE T!Kind(t, p))

\* C03 at the representation level: every key's parent key is present and a directory
FlatWellFormed == \A k \in DOMAIN Flat(t) : k # <<>> => ParentKey(k) \in DOMAIN Flat(t) /\ Flat(t)[ParentKey(k)] = "dir"
=============================================================================
