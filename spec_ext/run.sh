#!/bin/sh
# Model-checks the modules of spec_ext/ (Level-B extensions that are not wired into the registered checks;
# they resolve VfsPaths / VfsTree from ../spec).  Exit 0 iff every instance is verified.
cd "$(dirname "$0")" || exit 2
CP=/opt/veriftools/tla/tla2tools.jar:/opt/veriftools/tla/CommunityModules-deps.jar
rc=0
for m in MC_MemFS_q MC_Whiteout_q; do
  md=$(mktemp -d)
  timeout 900 java -XX:+UseParallelGC -Xss1g -Xmx8g -DTLA-Library="$(cd ../spec && pwd)" -cp $CP tlc2.TLC -workers 8 \
    -metadir "$md" -cleanup -noGenerateSpecTE -config $m.cfg $m.tla > $m.out 2>&1
  rm -rf "$md"
  if grep -q "No error has been found" $m.out; then echo "$m: $(grep 'distinct states found' $m.out)"; else echo "$m: FAILED (see spec_ext/$m.out)"; rc=1; fi
done
exit $rc
