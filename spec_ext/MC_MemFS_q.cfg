SPECIFICATION Spec
INVARIANT KeysInjective
INVARIANT ReadDirRefines
INVARIANT RemoveDirRefines
INVARIANT CreateDirRefines
CHECK_DEADLOCK FALSE
CONSTANTS
  NameSet <- NS
  Depth = 2
