SPECIFICATION Spec
INVARIANT KeysInjective
INVARIANT ReadDirRefines
INVARIANT RemoveDirRefines
INVARIANT CreateDirRefines
INVARIANT RemoveFileRefines
INVARIANT CreateFileRefines
INVARIANT LookupRefines
INVARIANT FlatWellFormed
CHECK_DEADLOCK FALSE
CONSTANTS
  NameSet <- NS
  Depth = 2
