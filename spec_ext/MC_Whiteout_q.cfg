SPECIFICATION Spec
INVARIANT MarkersInjective
INVARIANT BlocksOnlyReserved
INVARIANT BlocksExactly
CHECK_DEADLOCK FALSE
CONSTANTS
  NameSet <- NS
  Depth = 3
