------------------------------ MODULE Whiteout ------------------------------
(***************************************************************************)
(* LEVEL B: where OverlayFS keeps its removal markers                       *)
(* (src/impls/overlay.rs, whiteout_path):                                   *)
(*    marker of "/x/y"  =  FILE  <write layer>/.whiteout/x/y_wo             *)
(*    marker of ""      =  FILE  <write layer>/.whiteout/_wo                *)
(* created by  create_dir_all(parent of the marker) ; create_file(marker).  *)
(* spec/Overlay treats the marker set as an abstract set of paths.  This    *)
(* module states when that abstraction is exact: markers of two paths can   *)
(* only get into each other's way (a FILE where the other needs a           *)
(* DIRECTORY, or the same file) when a path component ends in "_wo" - the   *)
(* reserved-name boundary named in DESIGN.md (seed C10-2).  Names are       *)
(* sequences of tokens; "_wo" is one token.                                 *)
(***************************************************************************)
EXTENDS VfsPaths, Integers, TLC
CONSTANT NameSet

Wo == "_wo"
W == <<".whiteout">>                       \* the bookkeeping directory (one name)
Suffixed(n) == n \o <<Wo>>
MarkerPath(p) == IF p = <<>> THEN <<W, <<Wo>>>> ELSE <<W>> \o Parent(p) \o <<Suffixed(Last(p))>>
NeededDirs(p) == {SubSeq(MarkerPath(p), 1, i) : i \in 1..(Len(MarkerPath(p)) - 1)}   \* create_dir_all(parent of the marker)
\* the marker FILE of p sits where the marker of q needs a DIRECTORY
Blocks(p, q) == MarkerPath(p) \in NeededDirs(q)
EndsInWo(n) == Len(n) > 0 /\ n[Len(n)] = Wo
Reserved(q) == \E i \in DOMAIN q : EndsInWo(q[i])
=============================================================================
