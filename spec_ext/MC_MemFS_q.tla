---- MODULE MC_MemFS_q ----
EXTENDS MC_MemFS
NS == { <<"a">>, <<"a","b">>, <<"b">> }      \* "a" is a prefix of "ab"
====
