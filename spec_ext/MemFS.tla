------------------------------- MODULE MemFS -------------------------------
(***************************************************************************)
(* LEVEL B: the storage representation of MemoryFS (src/impls/memory.rs):  *)
(* ONE flat map from path STRINGS ("" for the root, "/a/ab" ...) to        *)
(* entries.  The directory structure exists only through string scans:     *)
(*   read_dir(path)   keys k with k.starts_with(path + "/") whose rest     *)
(*                    contains no '/'                                      *)
(*   remove_dir(path) refuses when any key starts_with(path + "/")         *)
(* ConcOps / Conc model the same file system over paths-as-name-sequences, *)
(* where "the children of p" is a definition.  This module closes the gap: *)
(* strings are sequences of CHARACTERS, names may be prefixes of one       *)
(* another ("a", "ab"), and MC_MemFS checks for every well-formed tree     *)
(* that the string scans compute exactly Level A's Children / Desc         *)
(* (prefix confusion "/a" vs "/ab" is the realistic way to break this).    *)
(***************************************************************************)
EXTENDS VfsPaths, Integers, TLC
CONSTANT NameSet      \* names: non-empty sequences of characters, none of them "/"

Slash == "/"
ASSUME \A n \in NameSet : Len(n) > 0 /\ \A i \in DOMAIN n : n[i] # Slash

\* ---- String primitives used by memory.rs
StartsWith(s, pre) == Len(s) >= Len(pre) /\ SubSeq(s, 1, Len(pre)) = pre
Contains(s, ch) == \E i \in DOMAIN s : s[i] = ch
Rest(s, pre) == SubSeq(s, Len(pre) + 1, Len(s))

\* ---- The key of a path: VfsPath strings are "" or ("/" name)+
RECURSIVE KeyOf(_)
KeyOf(p) == IF p = <<>> THEN <<>> ELSE <<Slash>> \o Head(p) \o KeyOf(Tail(p))

\* files: a function from keys (strings) to "dir" / "file"; the root key "" is always a dir
\* ---- read_dir, transcribed
ReadDir(files, path) ==
  LET prefix == path \o <<Slash>>
      hits == {k \in DOMAIN files : StartsWith(k, prefix) /\ ~Contains(Rest(k, prefix), Slash)}
  IN IF path \notin DOMAIN files THEN [cls |-> "notfound", v |-> {}]
     ELSE IF files[path] # "dir" THEN [cls |-> "err", v |-> {}]
     ELSE [cls |-> "ok", v |-> {Rest(k, prefix) : k \in hits}]

Without(files, k) == [x \in DOMAIN files \ {k} |-> files[x]]
With(files, k, v) == [x \in DOMAIN files \cup {k} |-> IF x = k THEN v ELSE files[x]]
R(cls, files) == [cls |-> cls, files |-> files, keys |-> DOMAIN files]

\* ---- remove_dir, transcribed (result class + new map)
RemoveDir(files, path) ==
  LET prefix == path \o <<Slash>> IN
  IF path \notin DOMAIN files THEN R("notfound", files)
  ELSE IF files[path] # "dir" THEN R("err", files)
  ELSE IF \E k \in DOMAIN files : StartsWith(k, prefix) THEN R("err", files)
  ELSE R("ok", Without(files, path))

\* ---- create_dir / create_file parent lookup: VfsPath::parent() cuts at the LAST '/'
LastSlash(s) == CHOOSE i \in DOMAIN s : s[i] = Slash /\ \A j \in DOMAIN s : s[j] = Slash => j <= i
ParentKey(s) == IF s = <<>> THEN <<>> ELSE SubSeq(s, 1, LastSlash(s) - 1)
FileName(s) == IF s = <<>> THEN <<>> ELSE SubSeq(s, LastSlash(s) + 1, Len(s))

\* ---- ensure_has_parent + create_dir, transcribed (one write lock)
CreateDir(files, path) ==
  IF path = <<>> \/ ParentKey(path) \notin DOMAIN files \/ files[ParentKey(path)] # "dir"
  THEN R("err", files)
  ELSE IF path \in DOMAIN files
  THEN R(IF files[path] = "file" THEN "file_exists" ELSE "dir_exists", files)
  ELSE R("ok", With(files, path, "dir"))

\* ---- remove_file, create_file (the open; the handle's publication is VfsHandles' business), exists, metadata
RemoveFile(files, path) ==
  IF path \notin DOMAIN files THEN R("notfound", files)
  ELSE IF files[path] # "file" THEN R("err", files)
  ELSE R("ok", Without(files, path))
CreateFile(files, path) ==
  IF path = <<>> \/ ParentKey(path) \notin DOMAIN files \/ files[ParentKey(path)] # "dir" THEN R("err", files)
  ELSE IF path \in DOMAIN files /\ files[path] # "file" THEN R("err", files)
  ELSE R("ok", With(files, path, "file"))
Exists(files, path) == path \in DOMAIN files
MetadataKind(files, path) == IF path \in DOMAIN files THEN files[path] ELSE "notfound"
=============================================================================
