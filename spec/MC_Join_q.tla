---- MODULE MC_Join_q ----
EXTENDS MC_Join
MCAlpha == {"/", ".", "a", "e"}
====
