SPECIFICATION Spec
INVARIANT Lemma
INVARIANT Determines
CHECK_DEADLOCK FALSE
CONSTANTS
  USeq <- U_small
  ContentSet <- C_set
