---------------------------- MODULE Trace_Tree2 ----------------------------
(* Trace validation for C11: transfers between two filesystem instances of any two configurations. *)
(* Both worlds are observed completely after every call and judged by Level A (VfsTree2).           *)
EXTENDS VfsPaths, Integers, TLC, Json, IOUtils
Rec == ndJsonDeserialize(IOEnv.TRACE)
USeq == Rec[1].universe
INSTANCE VfsObs
INSTANCE VfsTree2
VARIABLES l, w, tainted, seg, cfg
vars == <<l, w, tainted, seg, cfg>>
Report(kind, rec) == PrintT(<<kind, ToJson(rec)>>)
KindS(t, p) == IF p = Root THEN "root" ELSE t[p].k
WantS(a) == IF a = AnyErr THEN <<"anyerr">> ELSE IF a = AnyErr \cup {"ok"} THEN <<"any">> ELSE IF a = {"ok"} THEN <<"ok">> ELSE <<"other">>

\* what was judged (vacuity guard): TLC registers, single worker; totals are printed with DONE
CN == [inits |-> 401, calls |-> 402, spec_ok |-> 403, spec_fail |-> 404, cross_instance |-> 405, same_instance |-> 406, err_labelled |-> 407]
Bump(i) == TLCSet(i, TLCGet(i) + 1)
BumpIf(c, i) == IF c THEN Bump(i) ELSE TRUE
Counters == [x \in DOMAIN CN |-> TLCGet(CN[x])]
Init == l = 1 /\ w = <<EmptyTree, EmptyTree>> /\ tainted = FALSE /\ seg = 0 /\ cfg = <<"-", "-">> /\ \A x \in DOMAIN CN : TLCSet(CN[x], 0)
SegInit ==
  /\ l <= Len(Rec) /\ Rec[l].ev = "init2"
  /\ LET e == Rec[l]
         t == <<TreeOfObs(e.obs[1]), TreeOfObs(e.obs[2])>>
         bad == UNION {(IF ObsMatches(e.obs[k], t[k]) THEN {} ELSE {"initmatch"})
                       \cup (IF WellFormedObs(e.obs[k]) THEN {} ELSE {"wellformed"})
                       \cup (IF ObserversAgree(e.obs[k]) THEN {} ELSE {"observers"})
                       \cup (IF NoPanicObs(e.obs[k]) THEN {} ELSE {"nopanic"}) : k \in {1, 2}} IN
     /\ w' = t /\ cfg' = e.cfgs /\ tainted' = (bad # {}) /\ seg' = seg + 1 /\ Bump(CN.inits)
     /\ IF bad = {} THEN TRUE ELSE Report("VIOL", [l |-> l, seg |-> seg + 1, secondary |-> FALSE, conjs |-> bad,
                                                    sig |-> [conj |-> "init", op |-> "init", kind |-> "x2", cfg |-> e.cfgs]])
  /\ l' = l + 1
Call ==
  /\ l <= Len(Rec) /\ Rec[l].ev = "call2"
  /\ LET e == Rec[l]
         r == Cross(e.op, w[e.i], e.p, w[e.j], e.q)
         want == [k \in {1, 2} |-> IF k = e.i THEN r.ti ELSE r.tj]
         bad == (IF e.res.c # "panic" /\ NoPanicObs(e.obs[1]) /\ NoPanicObs(e.obs[2]) THEN {} ELSE {"nopanic"})
                \cup (IF e.res.c \in r.allowed THEN {} ELSE {"class"})
                \cup (IF e.op = "copy_dir" /\ e.res.c = "ok" /\ r.regime = "spec" /\ e.res.val # r.val THEN {"value"} ELSE {})
                \cup (IF r.regime = "spec" /\ ~(ObsMatches(e.obs[1], want[1]) /\ ObsMatches(e.obs[2], want[2])) THEN {"effect"} ELSE {})
                \cup (IF WellFormedObs(e.obs[1]) /\ WellFormedObs(e.obs[2]) THEN {} ELSE {"wellformed"})
                \cup (IF ObserversAgree(e.obs[1]) /\ ObserversAgree(e.obs[2]) THEN {} ELSE {"observers"})
                \cup (IF e.res.c \in ErrClasses => EpOK(e.res.ep, e.p, e.q) THEN {} ELSE {"errpath"}) IN
     /\ Bump(CN.calls) /\ BumpIf(r.regime = "spec" /\ e.res.c = "ok" /\ "ok" \in r.allowed, CN.spec_ok) /\ BumpIf(r.regime = "spec" /\ "ok" \notin r.allowed, CN.spec_fail)
     /\ BumpIf(e.i # e.j, CN.cross_instance) /\ BumpIf(e.i = e.j, CN.same_instance) /\ BumpIf(e.res.c \in ErrClasses, CN.err_labelled)
     /\ w' = <<TreeOfObs(e.obs[1]), TreeOfObs(e.obs[2])>>
     /\ tainted' = (tainted \/ bad # {})
     /\ IF bad = {} THEN TRUE
        ELSE Report("VIOL", [l |-> l, seg |-> seg, secondary |-> tainted, conjs |-> bad,
                             sig |-> [conj |-> CHOOSE c \in bad : TRUE, op |-> e.op, kind |-> "x2", cfg |-> cfg, src_cfg |-> cfg[e.i], dst_cfg |-> cfg[e.j],
                                      target |-> KindS(w[e.i], e.p), dest |-> KindS(w[e.j], e.q), dest_parent |-> KindS(w[e.j], Parent(e.q)),
                                      got |-> e.res.c, want |-> WantS(r.allowed), regime |-> r.regime,
                                      diff |-> <<DiffPaths(e.obs[1], want[1]), DiffPaths(e.obs[2], want[2])>>]])
  /\ UNCHANGED <<seg, cfg>>
  /\ l' = l + 1
Next == SegInit \/ Call
TrSpec == Init /\ [][Next]_vars
Consumed ==
  IF TLCGet("stats").diameter - 1 = Len(Rec) THEN Report("DONE", [events |-> Len(Rec), judged |-> Counters])
  ELSE Report("STUCK", [at |-> TLCGet("stats").diameter, of |-> Len(Rec)]) /\ FALSE
=============================================================================
