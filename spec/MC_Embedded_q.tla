---- MODULE MC_Embedded_q ----
EXTENDS MC_Embedded
U7 == << <<"a">>, <<"b">>, <<"a","a">>, <<"a","b">>, <<"b","a">>, <<"a","a","a">>, <<"a","a","b">> >>
UU == Range(U7)
====
