---- MODULE MC_WalkAsync ----
EXTENDS WalkAsync
U == {<<"a">>, <<"b">>, <<"a","a">>, <<"a","b">>, <<"a","a","a">>}
WF(t) == \A p \in DOMAIN t : Len(p) > 1 => (Par(p) \in DOMAIN t /\ t[Par(p)] = "dir")
MCTrees == UNION { {t \in [S -> {"dir", "file"}] : WF(t)} : S \in SUBSET U }
====
