---------------------------- MODULE MC_PathLayer ----------------------------
(* The composite loops of the path layer refine the atomic Level-A composites: for every well-formed   *)
(* tree of the universe and every argument (destinations outside the source subtree).                   *)
EXTENDS PathLayer
CONSTANTS USeq, ContentSet
Nodes == {Absent, Dir} \cup {File(c) : c \in ContentSet}
Trees == {t \in [Universe -> Nodes] : WellFormed(t)}
VARIABLE t
Init == t \in Trees
Next == UNCHANGED t
Spec == Init /\ [][Next]_t

ClassOK(c, a) == IF c = "ok" THEN "ok" \in a.allowed ELSE (a.allowed \cap ErrClasses) # {}
Agrees(r, a) == ClassOK(r.c, a) /\ (a.regime = "spec" => r.t = a.t) /\ (a.regime # "spec" => WellFormed(r.t))
CreateDirAllRefines == \A p \in Universe : Agrees(PLCreateDirAll(t, p), CreateDirAll(t, p))
RemoveDirAllRefines == \A p \in Universe : Agrees(PLRemoveDirAll(t, p), RemoveDirAll(t, p))
CopyFileRefines == \A s \in Universe, d \in Universe : Agrees(PLCopyFile(t, s, d), CopyFile(t, s, d))
MoveFileRefines == \A s \in Universe, d \in Universe : (t[s].k # "dir") => Agrees(PLMoveFile(t, s, d), MoveFile(t, s, d))
CopyDirRefines == \A s \in Universe, d \in Universe : (~IsPrefix(s, d) /\ Fits(t, s, d)) =>
                     LET r == PLCopyDir(t, s, d)  a == CopyDir(t, s, d) IN Agrees(r, a) /\ (r.c = "ok" => r.v = a.val)
MoveDirRefines == \A s \in Universe, d \in Universe : (~IsPrefix(s, d) /\ Fits(t, s, d)) => Agrees(PLMoveDir(t, s, d), MoveDir(t, s, d))
\* C05: the walk yields every descendant exactly once, a directory before anything inside it
WalkOK == \A p \in Universe : t[p].k = "dir" =>
            LET w == Walk(t, p) IN
            /\ {w[i] : i \in DOMAIN w} = Desc(t, p) /\ Len(w) = Cardinality(Desc(t, p))
            /\ \A i, j \in DOMAIN w : i < j => ~StrictPrefix(w[j], w[i])
=============================================================================
