------------------------------- MODULE MC_Conc -------------------------------
EXTENDS Conc
MU == {<<"a">>, <<"a", "b">>}
MThreads == {1, 2}
Cl(op, p, c) == [op |-> op, p |-> p, c |-> c]
\* "macro calls": a write session is two calls of one thread
Macros == UNION {{ <<Cl("create_dir", p, <<>>)>>, <<Cl("cf_open", p, <<>>), Cl("close", p, <<2>>)>>, <<Cl("ap_open", p, <<>>), Cl("close", p, <<3>>)>>,
                   <<Cl("remove_file", p, <<>>)>>, <<Cl("remove_dir", p, <<>>)>>, <<Cl("exists", p, <<>>)>>, <<Cl("metadata", p, <<>>)>>,
                   <<Cl("read", p, <<>>)>> } : p \in MU} \cup { <<Cl("read_dir", <<"a">>, <<>>)>>, <<Cl("read_dir", <<>>, <<>>)>> }
Seqs1 == Macros
Seqs2 == {m1 \o m2 : m1 \in Macros, m2 \in Macros}
MProgs == {[t \in MThreads |-> IF t = 1 THEN x ELSE y] : x \in Seqs1 \cup Seqs2, y \in Seqs1}
MInits == { [p \in MU |-> None],
            [p \in MU |-> IF p = <<"a">> THEN DirN ELSE None],
            [p \in MU |-> IF p = <<"a">> THEN DirN ELSE FileN(<<1>>)],
            [p \in MU |-> DirN],
            [p \in MU |-> IF p = <<"a">> THEN FileN(<<1>>) ELSE None] }
=============================================================================
