---------------------------- MODULE MC_ObsLemma ----------------------------
(* Lemma used by Trace_Tree to skip redundant work: for every well-formed tree t of the universe  *)
(* and every observation record o that matches t (built canonically here, with every choice of     *)
(* the free error class), WellFormedObs(o) and ObserversAgree(o) hold; and a record built for t     *)
(* does not match any other tree (ObsMatches determines the tree).                                  *)
EXTENDS VfsPaths, Integers, TLC
CONSTANTS USeq, ContentSet
INSTANCE VfsObs

Nodes == {Absent, Dir} \cup {File(c) : c \in ContentSet}
Trees == {t \in [Universe -> Nodes] : WellFormed(t)}
SeqOfSet(S) == CHOOSE s \in [1..Cardinality(S) -> S] : \A i, j \in 1..Cardinality(S) : i # j => s[i] # s[j]
Free(t, p, ec) == IF IsDirAt(t, Parent(p)) THEN "notfound" ELSE ec
EntOf(t, p, ec) ==
  LET k == Kind(t, p)  d == Data(t, p)  no == [c |-> "-", ep |-> <<"-">>] IN
  [p |-> p,
   ex |-> [c |-> "ok", v |-> k # "none"],
   md |-> IF k = "none" THEN [c |-> Free(t, p, ec), k |-> "none", len |-> 0, ep |-> p] ELSE [c |-> "ok", k |-> k, len |-> Len(d), ep |-> <<"-">>],
   isf |-> [c |-> "ok", v |-> k = "file"], isd |-> [c |-> "ok", v |-> k = "dir"],
   ls |-> IF k = "dir" THEN [c |-> "ok", v |-> SeqOfSet(ChildNames(t, p)), ep |-> <<"-">>]
          ELSE [c |-> IF k = "none" THEN Free(t, p, ec) ELSE ec, v |-> <<>>, ep |-> p],
   op |-> IF k = "file" THEN [c |-> "ok", ep |-> <<"-">>] ELSE [c |-> IF k = "none" THEN Free(t, p, ec) ELSE ec, ep |-> p],
   rd |-> IF k = "file" THEN [c |-> "ok", v |-> d] ELSE [c |-> "skip", v |-> <<>>],
   rts |-> IF k = "file" /\ Utf8(d) THEN [c |-> "ok", same |-> TRUE, ep |-> <<"-">>]
           ELSE [c |-> IF k = "none" THEN Free(t, p, ec) ELSE ec, same |-> FALSE, ep |-> p]]
RECURSIVE WalkOf(_, _)
WalkOf(t, p) == LET kids == SeqOfSet(Children(t, p)) IN
                LET F[i \in 0..Len(kids)] == IF i = 0 THEN <<>> ELSE F[i - 1] \o <<kids[i]>> \o WalkOf(t, kids[i]) IN F[Len(kids)]
ObsOf(t, ec) == [ents |-> <<EntOf(t, Root, ec)>> \o [i \in 1..Len(USeq) |-> EntOf(t, USeq[i], ec)],
                 walk |-> [c |-> "ok", nerr |-> 0, ep |-> <<"-">>, v |-> WalkOf(t, Root)]]

VARIABLE t
Init == t \in Trees
Next == UNCHANGED t
Spec == Init /\ [][Next]_t
Lemma == \A ec \in {"err", "notfound", "not_supported"} :
           LET o == ObsOf(t, ec) IN
           /\ ObsMatches(o, t) /\ WellFormedObs(o) /\ ObserversAgree(o) /\ ObsErrPathsOK(o) /\ NoPanicObs(o)
           /\ TreeOfObs(o) = t
Determines == \A u \in Trees : u # t => ~ObsMatches(ObsOf(t, "err"), u)
=============================================================================
