SPECIFICATION Spec
INVARIANT InvWF
INVARIANT InvEmitState
CHECK_DEADLOCK FALSE
CONSTANTS
  USeq <- U2
  ContentSet <- C2
  EmitLTS = TRUE
