SPECIFICATION Spec
INVARIANT FaithfulView
CHECK_DEADLOCK FALSE
CONSTANTS
  USeq <- U9
  Universe <- UU
