------------------------------ MODULE MC_Conc17 ------------------------------
(* C17 on the MemoryFS model: 2 and 3 threads, each one create_dir_all on targets sharing prefixes of every length *)
EXTENDS Conc
MU == {<<"a">>, <<"a", "b">>, <<"a", "b", "c">>, <<"a", "e">>, <<"e">>}
MThreads == {1, 2, 3}
Cl(op, p, c) == [op |-> op, p |-> p, c |-> c]
Cda == {<<Cl("create_dir_all", p, <<>>)>> : p \in MU} \cup {<<>>}
MProgs == {[t \in MThreads |-> IF t = 1 THEN x ELSE IF t = 2 THEN y ELSE z] : x \in Cda \ {<<>>}, y \in Cda \ {<<>>}, z \in Cda}
MInits == { [p \in MU |-> None], [p \in MU |-> IF p = <<"a">> THEN DirN ELSE None], [p \in MU |-> IF p \in {<<"a">>, <<"a", "b">>} THEN DirN ELSE None] }
=============================================================================
