---------------------------- MODULE VfsHandles ----------------------------
(***************************************************************************)
(* LEVEL A for file handles (C04, C14): the standard Read / Write / Seek   *)
(* contracts as cursor machines over one file.                             *)
(*   ex, file : whether the file exists, and its published byte sequence   *)
(*   w    : the open write handle  [open, buf, pos, app, dirty, det]       *)
(*   r    : the open read handle   [open, data, pos]                       *)
(* A write handle is a growable cursor: create starts empty, append starts *)
(* at the end of the existing bytes, writing past the end zero-fills the   *)
(* gap; flush and drop publish exactly the buffer.  A handle whose file    *)
(* was removed is detached (det): it keeps working but publishes nothing.  *)
(* A read handle is a cursor over the bytes it was opened on.              *)
(* isdir: after the file was removed a DIRECTORY may be created at its     *)
(* path while a (detached) write handle is still open: the handle must not *)
(* turn it back into a file.  set_cr: setting the creation time (where     *)
(* supported) never interferes with open handles (C19).                    *)
(***************************************************************************)
EXTENDS Integers, Sequences, FiniteSets, TLC

NoW == [open |-> FALSE, buf |-> <<>>, pos |-> 0, app |-> FALSE, dirty |-> FALSE, det |-> FALSE]
NoR == [open |-> FALSE, data |-> <<>>, pos |-> 0]
InitH == [ex |-> FALSE, isdir |-> FALSE, file |-> <<>>, w |-> NoW, r |-> NoR]
Exists(s) == s.ex

Zeros(n) == [i \in 1..n |-> 0]
Min(a, b) == IF a < b THEN a ELSE b
Max(a, b) == IF a > b THEN a ELSE b
Overwrite(buf, pos, c) ==
  IF pos >= Len(buf) THEN buf \o Zeros(pos - Len(buf)) \o c
  ELSE SubSeq(buf, 1, pos) \o c \o SubSeq(buf, pos + Len(c) + 1, Len(buf))

SeekTarget(wh, off, pos, len) == (IF wh = "start" THEN 0 ELSE IF wh = "cur" THEN pos ELSE len) + off

\* result record: [c : class, v : value (bytes read or new position), s : state after]
R(c, v, s) == [c |-> c, v |-> v, s |-> s]
AnyErrH == {"err", "notfound"}

\* o : [op, c (bytes), wh, off, n]
Step(s, o) ==
  CASE o.op = "open_create" ->
         IF s.isdir THEN R(AnyErrH, <<>>, s)
         ELSE R({"ok"}, <<>>, [s EXCEPT !.ex = TRUE, !.file = <<>>, !.w = [NoW EXCEPT !.open = TRUE]])
    [] o.op = "mkdir" -> R({"ok"}, <<>>, [s EXCEPT !.isdir = TRUE])
    [] o.op = "rmdir" -> R({"ok"}, <<>>, [s EXCEPT !.isdir = FALSE])
    [] o.op = "set_cr" -> R({"ok", "not_supported"}, <<>>, s)      \* (which of the two is decided per configuration in the trace specification)
    [] o.op = "open_append" ->
         IF s.isdir THEN R(AnyErrH, <<>>, s) ELSE
         IF Exists(s) THEN R({"ok"}, <<>>, [s EXCEPT !.w = [NoW EXCEPT !.open = TRUE, !.buf = s.file, !.pos = Len(s.file), !.app = TRUE]])
         ELSE R({"notfound"}, <<>>, s)
    [] o.op = "open_read" ->
         IF s.isdir THEN R(AnyErrH, <<>>, s) ELSE
         IF Exists(s) THEN R({"ok"}, <<>>, [s EXCEPT !.r = [open |-> TRUE, data |-> s.file, pos |-> 0]])
         ELSE R({"notfound"}, <<>>, s)
    [] o.op = "write" ->
         R({"ok"}, <<>>, [s EXCEPT !.w.buf = Overwrite(s.w.buf, s.w.pos, o.c), !.w.pos = s.w.pos + Len(o.c), !.w.dirty = TRUE])
    [] o.op = "seek_w" ->
         LET t == SeekTarget(o.wh, o.off, s.w.pos, Len(s.w.buf)) IN
         IF t < 0 THEN R(AnyErrH, <<>>, s) ELSE R({"ok"}, <<t>>, [s EXCEPT !.w.pos = t])
    [] o.op = "flush" ->
         R({"ok"}, <<>>, [s EXCEPT !.file = IF s.w.det THEN s.file ELSE s.w.buf, !.w.dirty = FALSE])
    [] o.op = "close_w" ->
         R({"ok"}, <<>>, [s EXCEPT !.file = IF s.w.det THEN s.file ELSE s.w.buf, !.w = NoW])
    [] o.op = "read" ->
         LET avail == Max(0, Len(s.r.data) - s.r.pos)
             k == Min(o.n, avail) IN
         R({"ok"}, SubSeq(s.r.data, s.r.pos + 1, s.r.pos + k), [s EXCEPT !.r.pos = s.r.pos + k])
    [] o.op = "seek_r" ->
         LET t == SeekTarget(o.wh, o.off, s.r.pos, Len(s.r.data)) IN
         IF t < 0 THEN R(AnyErrH, <<>>, s) ELSE R({"ok"}, <<t>>, [s EXCEPT !.r.pos = t])
    [] o.op = "close_r" -> R({"ok"}, <<>>, [s EXCEPT !.r = NoR])
    [] o.op = "xseek" -> R(AnyErrH \cup {"ok"}, <<>>, s)     \* extreme offsets: only "no panic" is judged
    [] o.op = "remove" ->
         IF s.isdir THEN R(AnyErrH, <<>>, s) ELSE
         IF Exists(s) THEN R({"ok"}, <<>>, [s EXCEPT !.ex = FALSE, !.file = <<>>, !.w.det = s.w.open])
         ELSE R({"notfound"}, <<>>, s)

\* which operations make sense in a state (one handle at a time)
Enabled(s, o) ==
  CASE o.op \in {"open_create", "open_append", "open_read"} -> ~s.w.open /\ ~s.r.open
    [] o.op \in {"write", "seek_w", "flush", "close_w"} -> s.w.open
    [] o.op \in {"read", "seek_r", "close_r"} -> s.r.open
    [] o.op = "xseek" -> R(AnyErrH \cup {"ok"}, <<>>, s)     \* extreme offsets: only "no panic" is judged
    [] o.op = "remove" -> TRUE
    [] o.op = "mkdir" -> ~s.ex /\ ~s.isdir
    [] o.op = "rmdir" -> s.isdir
    [] o.op = "set_cr" -> s.ex

\* what a fresh reader must see (only judged while no unflushed data is pending)
Published(s) == s.file
Quiescent(s) == ~(s.w.open /\ s.w.dirty)
=============================================================================
