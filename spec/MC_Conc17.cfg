SPECIFICATION Spec
INVARIANT AllCreateDirAllSucceed
INVARIANT Linearizable
INVARIANT WellFormed
CHECK_DEADLOCK FALSE
CONSTANTS
  Threads <- MThreads
  Progs <- MProgs
  Inits <- MInits
  U <- MU
