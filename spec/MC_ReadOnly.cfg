SPECIFICATION Spec
INVARIANT Refused
CHECK_DEADLOCK FALSE
CONSTANTS
  USeq <- U_small
  ContentSet <- C_set
