------------------------------ MODULE VfsTree2 ------------------------------
(***************************************************************************)
(* LEVEL A for transfers ACROSS two filesystem instances (C11).            *)
(* copy_file / move_file / copy_dir / move_dir take a source (tree ti,     *)
(* path s) and a destination (tree tj, path d) of ANOTHER instance.  The   *)
(* effect must be that of the one-instance operators of VfsTree: a byte-   *)
(* and structure-identical copy below d in tj, the source untouched (copy) *)
(* or gone (move), an existing destination refused without side effects.   *)
(***************************************************************************)
EXTENDS VfsPaths, Integers, TLC
CONSTANT Universe
INSTANCE VfsTree

XCopied(ti, s, d, q) == LET o == ReRoot(q, d, s) IN IF o \in Universe THEN ti[o] ELSE Absent
\* result: [allowed, regime, val, ti, tj]
X(allowed, regime, val, ti, tj) == [allowed |-> allowed, regime |-> regime, val |-> val, ti |-> ti, tj |-> tj]
Cross(op, ti, s, tj, d) ==
  LET wrong == IF op \in {"copy_file", "move_file"} THEN ti[s].k = "dir" ELSE ti[s].k = "file" IN
  IF wrong THEN X(AnyErr \cup {"ok"}, "inv", 0, ti, tj)
  ELSE IF tj[d].k # "none" THEN X(AnyErr, "spec", 0, ti, tj)
  ELSE IF ti[s].k = "none" \/ ~IsDirAt(tj, Parent(d)) THEN X(AnyErr, "inv", 0, ti, tj)
  ELSE CASE op = "copy_file" -> X({"ok"}, "spec", 0, ti, [tj EXCEPT ![d] = ti[s]])
         [] op = "move_file" -> X({"ok"}, "spec", 0, [ti EXCEPT ![s] = Absent], [tj EXCEPT ![d] = ti[s]])
         [] op = "copy_dir"  -> X({"ok"}, "spec", Cardinality(Desc(ti, s)), ti,
                                  [q \in Universe |-> IF q = d THEN Dir ELSE IF StrictPrefix(d, q) THEN XCopied(ti, s, d, q) ELSE tj[q]])
         [] op = "move_dir"  -> X({"ok"}, "spec", 0, [q \in Universe |-> IF IsPrefix(s, q) THEN Absent ELSE ti[q]],
                                  [q \in Universe |-> IF q = d THEN Dir ELSE IF StrictPrefix(d, q) THEN XCopied(ti, s, d, q) ELSE tj[q]])
XFits(ti, s, d) == \A q \in Desc(ti, s) : ReRoot(q, s, d) \in Universe

=============================================================================
