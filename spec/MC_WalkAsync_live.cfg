SPECIFICATION FairSpec
PROPERTY Terminates
CHECK_DEADLOCK FALSE
CONSTANTS
  Trees <- MCTrees
  MaxPend = 2
