----------------------------- MODULE OverlayOps -----------------------------
(***************************************************************************)
(* LEVEL B, primitive mutators of OverlayFS (src/impls/overlay.rs, as      *)
(* repaired) behind the path layer.  No recursive definitions (the         *)
(* recursive composites create_dir_all / remove_dir_all are in module      *)
(* Overlay), so spec/proofs/OverlayProofs.tla can reason about them.       *)
(***************************************************************************)
EXTENDS OverlayView

\* ---- results
Res(c, up, wo) == [c |-> c, up |-> up, wo |-> wo]
\* the write layer is driven through ITS path API: Level-A operators on the tree of layer 1
UpperCreateDirAll(up, p) ==       \* create_dir_all of the chain p (p may be the root: nothing to do)
  IF p = Root THEN [ok |-> TRUE, t |-> up]
  ELSE LET r == CreateDirAll(up, p) IN [ok |-> "ok" \in r.allowed, t |-> r.t]
EnsureParent(ls, wo, p) ==        \* OverlayFS::ensure_has_parent
  IF ReadPath(ls, wo, Parent(p)).k = "none" THEN [ok |-> FALSE, t |-> ls[1]]
  ELSE UpperCreateDirAll(ls[1], Parent(p))
GetParentOK(ls, wo, p) == ReadPath(ls, wo, Parent(p)).k = "dir"        \* VfsPath::get_parent through the overlay

OCreateDir(ls, wo, p) ==
  IF ~GetParentOK(ls, wo, p) THEN Res("err", ls[1], wo)
  ELSE LET e == EnsureParent(ls, wo, p) IN
       IF ~e.ok THEN Res("err", e.t, wo)
       ELSE LET ls2 == [ls EXCEPT ![1] = e.t]
                cur == ReadPath(ls2, wo, p) IN
            IF cur.k = "dir" THEN Res("dir_exists", e.t, wo)
            ELSE IF cur.k = "file" THEN Res("file_exists", e.t, wo)
            ELSE LET wo2 == IF p \in wo
                            THEN wo \cup {q \in Universe : Parent(q) = p /\ \E i \in DOMAIN ls : i > 1 /\ IsDirIn(ls[i], p) /\ HasIn(ls[i], q)}
                            ELSE wo
                     r == CreateDir(e.t, p) IN          \* write_path.create_dir()
                 IF "ok" \in r.allowed THEN Res("ok", r.t, wo2 \ {p}) ELSE Res("err", e.t, wo2)

OCreateFile(ls, wo, p, c) ==
  IF ~GetParentOK(ls, wo, p) THEN Res("err", ls[1], wo)
  ELSE LET e == EnsureParent(ls, wo, p) IN
       IF ~e.ok THEN Res("err", e.t, wo)
       ELSE LET ls2 == [ls EXCEPT ![1] = e.t] IN
            IF ReadPath(ls2, wo, p).k = "dir" THEN Res("err", e.t, wo)
            ELSE LET r == CreateFile(e.t, p, c) IN
                 IF "ok" \in r.allowed THEN Res("ok", r.t, wo \ {p}) ELSE Res("err", e.t, wo)

OAppendFile(ls, wo, p, c) ==
  IF HasIn(ls[1], p)
  THEN LET r == AppendFile(ls[1], p, c) IN IF "ok" \in r.allowed THEN Res("ok", r.t, wo) ELSE Res("err", ls[1], wo)
  ELSE LET src == ReadPath(ls, wo, p) IN
       IF src.k = "none" THEN Res("notfound", ls[1], wo)
       ELSE LET e == EnsureParent(ls, wo, p) IN
            IF ~e.ok THEN Res("err", e.t, wo)
            ELSE IF src.k # "file" THEN Res("err", e.t, wo)               \* copy_file of a directory fails
            ELSE Res("ok", [e.t EXCEPT ![p] = File(src.d \o c)], wo)       \* copy-up, then append in the write layer

ORemoveFile(ls, wo, p) ==
  IF ReadPath(ls, wo, p).k = "none" THEN Res("notfound", ls[1], wo)
  ELSE IF HasIn(ls[1], p)
       THEN LET r == RemoveFile(ls[1], p) IN IF "ok" \in r.allowed THEN Res("ok", r.t, wo \cup {p}) ELSE Res("err", ls[1], wo)
       ELSE Res("ok", ls[1], wo \cup {p})                                  \* KNOWN FINDING: no type check for lower-only entries

ORemoveDir(ls, wo, p) ==
  LET cur == ReadPath(ls, wo, p) IN
  IF cur.k = "none" THEN Res("notfound", ls[1], wo)
  ELSE IF cur.k # "dir" \/ ListedKids(ls, wo, p) # {} THEN Res("err", ls[1], wo)
  ELSE IF HasIn(ls[1], p)
       THEN LET r == RemoveDir(ls[1], p) IN IF "ok" \in r.allowed THEN Res("ok", r.t, wo \cup {p}) ELSE Res("err", ls[1], wo)
       ELSE Res("ok", ls[1], wo \cup {p})

=============================================================================
