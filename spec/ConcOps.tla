------------------------------ MODULE ConcOps ------------------------------
(***************************************************************************)
(* LEVEL B: MemoryFS (src/impls/memory.rs, as repaired) behind the VfsPath *)
(* layer at LOCK-ACQUISITION granularity, N threads running small programs *)
(* of public calls.  One micro-step = everything a call does under one     *)
(* acquisition of the filesystem lock (these are exactly the yield points  *)
(* of the verif-hooks feature):                                            *)
(*   create_dir / cf_open : exists(parent) | metadata(parent) | check+insert*)
(*   close (drop of a write handle) : publish the buffer if still a file   *)
(*   ap_open, remove_file, remove_dir, exists, metadata, read_dir : 1 step *)
(*   read (open_file + read_to_end) : set_access_time | lookup              *)
(* C16: every terminal state is explained by running the SAME micro-steps  *)
(* atomically in some order of the calls that respects program order       *)
(* (write handles are two calls: open and close).                          *)
(***************************************************************************)
EXTENDS Naturals, Sequences, FiniteSets, TLC
CONSTANT U      \* universe of paths

Par(p) == SubSeq(p, 1, Len(p) - 1)
None == [k |-> "none", d |-> <<>>]
DirN == [k |-> "dir", d |-> <<>>]
FileN(d) == [k |-> "file", d |-> d]
Kind(f, p) == IF p = <<>> THEN "dir" ELSE f[p].k
Kids(f, p) == {q \in U : Par(q) = p /\ f[q].k # "none"}
NoH == [open |-> FALSE, buf |-> <<>>, p |-> <<>>]

\* one micro-step of call c at step s: [f, h, done, res]
D(f, h, r) == [f |-> f, h |-> h, done |-> TRUE, res |-> r]
C(f, h) == [f |-> f, h |-> h, done |-> FALSE, res |-> <<"-">>]
Err == <<"err">>
Ok == <<"ok">>
GetParent(c, s, f, h) ==      \* VfsPath::get_parent: exists(parent), then metadata(parent)
  IF s = 0 THEN (IF Kind(f, Par(c.p)) = "none" THEN D(f, h, Err) ELSE C(f, h))
  ELSE (IF Kind(f, Par(c.p)) # "dir" THEN D(f, h, Err) ELSE C(f, h))
Micro(c, s, f, h) ==
  CASE c.op = "create_dir" ->
         IF s < 2 THEN GetParent(c, s, f, h)
         ELSE IF Kind(f, Par(c.p)) # "dir" \/ f[c.p].k # "none" THEN D(f, h, Err)      \* one write lock: parent is a dir + occupancy + insert
         ELSE D([f EXCEPT ![c.p] = DirN], h, Ok)
    [] c.op = "cf_open" ->
         IF s < 2 THEN GetParent(c, s, f, h)
         ELSE IF Kind(f, Par(c.p)) # "dir" \/ f[c.p].k = "dir" THEN D(f, h, Err)
         ELSE D([f EXCEPT ![c.p] = FileN(<<>>)], [open |-> TRUE, buf |-> <<>>, p |-> c.p], Ok)
    [] c.op = "ap_open" ->
         IF f[c.p].k # "file" THEN D(f, h, Err)
         ELSE D(f, [open |-> TRUE, buf |-> f[c.p].d, p |-> c.p], Ok)
    [] c.op = "close" ->                                                                 \* write_all (no lock) + drop (flush)
         IF ~h.open THEN D(f, h, <<"nohandle">>)
         ELSE D(IF f[h.p].k = "file" THEN [f EXCEPT ![h.p] = FileN(h.buf \o c.c)] ELSE f, NoH, Ok)
    [] c.op = "create_dir_all" ->                         \* VfsPath::create_dir_all: fs.create_dir per prefix, DirectoryExists ignored
         LET q == SubSeq(c.p, 1, s + 1) IN
         IF Kind(f, Par(q)) # "dir" \/ f[q].k = "file" THEN D(f, h, Err)
         ELSE LET f2 == IF f[q].k = "dir" THEN f ELSE [f EXCEPT ![q] = DirN] IN
              IF s + 1 = Len(c.p) THEN D(f2, h, Ok) ELSE C(f2, h)
    [] c.op = "remove_file" -> IF f[c.p].k # "file" THEN D(f, h, Err) ELSE D([f EXCEPT ![c.p] = None], h, Ok)
    [] c.op = "remove_dir" ->
         IF f[c.p].k # "dir" \/ Kids(f, c.p) # {} THEN D(f, h, Err) ELSE D([f EXCEPT ![c.p] = None], h, Ok)
    [] c.op = "exists" -> D(f, h, <<"ok", f[c.p].k # "none">>)
    [] c.op = "metadata" -> IF f[c.p].k = "none" THEN D(f, h, Err) ELSE D(f, h, <<"ok", f[c.p].k, Len(f[c.p].d)>>)
    [] c.op = "read_dir" -> IF Kind(f, c.p) # "dir" THEN D(f, h, Err) ELSE D(f, h, <<"ok", Kids(f, c.p)>>)
    [] c.op = "read" ->
         IF s = 0 THEN (IF f[c.p].k = "none" THEN D(f, h, Err) ELSE C(f, h))              \* set_access_time under the write lock
         ELSE (IF f[c.p].k # "file" THEN D(f, h, Err) ELSE D(f, h, <<"ok", f[c.p].d>>))  \* lookup under the read lock
\* a write handle still open at the end of a thread's program is dropped (one more acquisition)
DropStep(f, h) == IF h.open /\ f[h.p].k = "file" THEN [f EXCEPT ![h.p] = FileN(h.buf)] ELSE f

\* ---- the sequential meaning: the same micro-steps without interruption
RECURSIVE RunAtomic(_, _, _, _)
RunAtomic(c, s, f, h) == LET m == Micro(c, s, f, h) IN IF m.done THEN m ELSE RunAtomic(c, s + 1, m.f, m.h)
\* all call orders that respect program order, each call run atomically (T: the set of threads)
RECURSIVE SeqOutT(_, _, _, _, _, _)
SeqOutT(T, prog, idx, f, hs, res) ==
  IF \A t \in T : idx[t] > Len(prog[t])
  THEN {<<res, f>>}
  ELSE UNION { LET m == RunAtomic(prog[t][idx[t]], 0, f, hs[t])
                   \* a handle left open at the end of a thread's program is dropped (published) right there
                   f2 == IF idx[t] = Len(prog[t]) THEN DropStep(m.f, m.h) ELSE m.f
                   h2 == IF idx[t] = Len(prog[t]) THEN NoH ELSE m.h IN
               SeqOutT(T, prog, [idx EXCEPT ![t] = @ + 1], f2, [hs EXCEPT ![t] = h2], [res EXCEPT ![t] = Append(@, m.res)])
             : t \in {t \in T : idx[t] <= Len(prog[t])} }
=============================================================================
