----------------------------- MODULE VfsTree -----------------------------
(***************************************************************************)
(* LEVEL A -- the contract.  The abstract file tree every backend, adapter *)
(* and stacking of rust-vfs must implement when driven through the public  *)
(* path API (VfsPath / AsyncVfsPath).                                      *)
(*                                                                         *)
(* A tree maps every path of a bounded, prefix-closed Universe to a node.  *)
(* One operator per public operation gives                                 *)
(*      [allowed : set of outcome classes, t : tree after, regime, val]    *)
(* regime "spec"  : outcome class set and post-tree are determined         *)
(*        "inv"   : outcome class constrained, post-tree only has to stay  *)
(*                  well-formed and self-consistent (model resynchronises) *)
(*        "unspec": only "no panic" is required                            *)
(* The module is constant-level (no variables) so that model-checking      *)
(* instances MC_x, implementation models (Level B) and trace                 *)
(* specifications Trace_x all reuse   the very same operators.             *)
(***************************************************************************)
EXTENDS VfsPaths, Integers, TLC

CONSTANT Universe          \* prefix-closed set of non-root paths

AllPaths == Universe \cup {Root}
Names == UNION {Range(p) : p \in Universe}

\* ------------------------------------------------------------------ nodes
Absent  == [k |-> "none", d |-> <<>>]
Dir     == [k |-> "dir",  d |-> <<>>]
File(c) == [k |-> "file", d |-> c]

EmptyTree == [p \in Universe |-> Absent]
Kind(t, p) == IF p = Root THEN "dir" ELSE IF p \in Universe THEN t[p].k ELSE "none"
Data(t, p) == IF p \in Universe THEN t[p].d ELSE <<>>
IsDirAt(t, p)  == Kind(t, p) = "dir"
IsFileAt(t, p) == Kind(t, p) = "file"
Present(t) == {p \in Universe : t[p].k # "none"}
Children(t, p) == {q \in Universe : Parent(q) = p /\ t[q].k # "none"}
Desc(t, p) == {q \in Universe : StrictPrefix(p, q) /\ t[q].k # "none"}

\* C03: every present entry hangs below a directory (the root is a directory by construction)
WellFormed(t) == \A p \in Universe : t[p].k # "none" => IsDirAt(t, Parent(p))

\* bytes: symbols 0..3; 0 is the zero-fill byte; 2 and 3 concretise to bytes that are never valid UTF-8
Utf8(d) == \A i \in DOMAIN d : d[i] \in {0, 1}

\* ---------------------------------------------------------------- classes
ErrClasses == {"err", "notfound", "file_exists", "dir_exists", "not_supported", "invalid_path"}
AnyErr == ErrClasses
NF == {"notfound"}
\* a target that is missing from an EXISTING DIRECTORY is pinned to not-found (C01/C12)
Missing(t, p) == IF IsDirAt(t, Parent(p)) THEN NF ELSE AnyErr

Ok(t)        == [allowed |-> {"ok"}, t |-> t, regime |-> "spec", val |-> 0]
OkVal(t, v)  == [allowed |-> {"ok"}, t |-> t, regime |-> "spec", val |-> v]
Fail(cls, t) == [allowed |-> cls,    t |-> t, regime |-> "spec", val |-> 0]
InvErr(t)    == [allowed |-> AnyErr, t |-> t, regime |-> "inv",  val |-> 0]   \* must fail, effect only well-formed
InvNF(t)     == [allowed |-> NF,     t |-> t, regime |-> "inv",  val |-> 0]   \* must fail as not-found, effect only well-formed
InvAny(t)    == [allowed |-> AnyErr \cup {"ok"}, t |-> t, regime |-> "inv", val |-> 0]
Unspec(t)    == [allowed |-> AnyErr \cup {"ok"}, t |-> t, regime |-> "unspec", val |-> 0]

\* ------------------------------------------------- primitive operations
\* (p \in Universe; calls on the root itself are handled by RootCall below)
CreateDir(t, p) ==
  IF ~IsDirAt(t, Parent(p))  THEN Fail(AnyErr, t)
  ELSE IF t[p].k = "file"    THEN Fail({"file_exists"}, t)
  ELSE IF t[p].k = "dir"     THEN Fail({"dir_exists"}, t)
  ELSE Ok([t EXCEPT ![p] = Dir])

\* create_file + write_all(c) + drop  (a complete write session that truncates)
CreateFile(t, p, c) ==
  IF ~IsDirAt(t, Parent(p)) \/ t[p].k = "dir" THEN Fail(AnyErr, t)
  ELSE Ok([t EXCEPT ![p] = File(c)])

\* append_file + write_all(c) + drop
AppendFile(t, p, c) ==
  IF t[p].k = "file" THEN Ok([t EXCEPT ![p] = File(t[p].d \o c)])
  ELSE IF t[p].k = "none" THEN Fail(Missing(t, p), t)
  ELSE Fail(AnyErr, t)

RemoveFile(t, p) ==
  IF t[p].k = "file" THEN Ok([t EXCEPT ![p] = Absent])
  ELSE IF t[p].k = "none" THEN Fail(Missing(t, p), t)
  ELSE Fail(AnyErr, t)                                   \* wrong type: must fail, unchanged

RemoveDir(t, p) ==
  IF t[p].k = "dir" THEN (IF Children(t, p) = {} THEN Ok([t EXCEPT ![p] = Absent]) ELSE Fail(AnyErr, t))
  ELSE IF t[p].k = "none" THEN Fail(Missing(t, p), t)
  ELSE Fail(AnyErr, t)

\* timestamp setters: never change the tree; class depends on what the configuration supports
\* sup = set of supported fields ("cr","mo","ac")
SetTime(t, p, f, sup) ==
  IF f \notin sup THEN Fail({"not_supported"}, t)
  ELSE IF t[p].k = "none" THEN Fail(Missing(t, p), t)
  ELSE Ok(t)

\* --------------------------------------------------- composite operations
CreateDirAll(t, p) ==
  IF \E q \in Prefixes(p) : t[q].k = "file" THEN InvErr(t)
  ELSE Ok([q \in Universe |-> IF q \in Prefixes(p) THEN Dir ELSE t[q]])

RemoveDirAll(t, p) ==
  IF t[p].k = "none" THEN Ok(t)
  ELSE IF t[p].k = "dir" THEN Ok([q \in Universe |-> IF IsPrefix(p, q) THEN Absent ELSE t[q]])
  ELSE InvAny(t)

\* transfers inside ONE filesystem instance (two instances: VfsTree2)
\* C12: a SOURCE missing from an existing directory is classified as not-found whenever nothing else is wrong
\* with the call (destination free, its parent a directory)
SrcMissing(t, s, d) == t[s].k = "none" /\ IsDirAt(t, Parent(s)) /\ t[d].k = "none" /\ IsDirAt(t, Parent(d))
CopyFile(t, s, d) ==
  IF SrcMissing(t, s, d) THEN InvNF(t)
  ELSE IF t[s].k = "dir" THEN InvAny(t)                         \* wrong-typed source: left unspecified by C01
  ELSE IF t[d].k # "none" THEN Fail(AnyErr, t)             \* existing destination: refused, no side effect (C11)
  ELSE IF t[s].k = "none" \/ ~IsDirAt(t, Parent(d)) THEN InvErr(t)
  ELSE Ok([t EXCEPT ![d] = t[s]])

MoveFile(t, s, d) ==
  IF SrcMissing(t, s, d) THEN InvNF(t)
  ELSE IF t[s].k = "dir" THEN InvAny(t)
  ELSE IF t[d].k # "none" THEN Fail(AnyErr, t)
  ELSE IF t[s].k = "none" \/ ~IsDirAt(t, Parent(d)) THEN InvErr(t)
  ELSE Ok([t EXCEPT ![d] = t[s], ![s] = Absent])

\* generated only when ~IsPrefix(s, d) (documented non-termination) and Fits
Fits(t, s, d) == \A q \in Desc(t, s) : ReRoot(q, s, d) \in Universe
Copied(t, s, d, q) == LET o == ReRoot(q, d, s) IN IF o \in Universe THEN t[o] ELSE Absent

CopyDir(t, s, d) ==
  IF SrcMissing(t, s, d) THEN InvNF(t)
  ELSE IF t[s].k = "file" THEN InvAny(t)
  ELSE IF t[d].k # "none" THEN Fail(AnyErr, t)
  ELSE IF t[s].k = "none" \/ ~IsDirAt(t, Parent(d)) THEN InvErr(t)
  ELSE OkVal([q \in Universe |-> IF q = d THEN Dir
                                 ELSE IF StrictPrefix(d, q) THEN Copied(t, s, d, q)
                                 ELSE t[q]],
             Cardinality(Desc(t, s)))

MoveDir(t, s, d) ==
  IF SrcMissing(t, s, d) THEN InvNF(t)
  ELSE IF t[s].k = "file" THEN InvAny(t)
  ELSE IF t[d].k # "none" THEN Fail(AnyErr, t)
  ELSE IF t[s].k = "none" \/ ~IsDirAt(t, Parent(d)) THEN InvErr(t)
  ELSE Ok([q \in Universe |-> IF q = d THEN Dir
                              ELSE IF StrictPrefix(d, q) THEN Copied(t, s, d, q)
                              ELSE IF IsPrefix(s, q) THEN Absent
                              ELSE t[q]])

\* read-only configurations (EmbeddedFS, C18): every mutator is refused and changes nothing.
\* The class is not_supported whenever the path layer's own pre-checks pass (create_dir/create_file
\* look at the parent first; transfers look at the destination and open the source first).
NS == {"not_supported"}
DestFree(t, d) == t[d].k = "none" /\ IsDirAt(t, Parent(d))
ReadOnlyOp(e, t) ==
  CASE e.op \in {"create_dir", "create_file"} ->
            IF IsDirAt(t, Parent(e.p)) THEN Fail(NS, t) ELSE Fail(AnyErr, t)
    [] e.op \in {"append_file", "remove_file", "remove_dir", "set_time", "create_dir_all"} -> Fail(NS, t)
    [] e.op = "remove_dir_all" ->
            IF t[e.p].k = "none" THEN Fail(NS \cup {"ok"}, t)
            ELSE IF t[e.p].k = "dir" THEN Fail(NS, t) ELSE Fail(AnyErr, t)
    [] e.op \in {"copy_file", "move_file"} ->
            IF DestFree(t, e.q) /\ t[e.p].k = "file" THEN Fail(NS, t) ELSE Fail(AnyErr, t)
    [] e.op \in {"copy_dir", "move_dir"} ->
            IF DestFree(t, e.q) THEN Fail(NS, t) ELSE Fail(AnyErr, t)
    [] OTHER -> Fail(AnyErr, t)

\* ------------------------------------------------------------ dispatcher
\* e : [op, p, q, c, f]   cfg : [sup, ro]
Mutators == {"create_dir", "create_file", "append_file", "remove_file", "remove_dir", "set_time",
             "create_dir_all", "remove_dir_all", "copy_file", "move_file", "copy_dir", "move_dir"}
Apply(e, t, cfg) ==
  IF cfg.ro /\ e.op \in Mutators THEN ReadOnlyOp(e, t)
  ELSE CASE e.op = "create_dir"     -> CreateDir(t, e.p)
         [] e.op = "create_file"    -> CreateFile(t, e.p, e.c)
         [] e.op = "append_file"    -> AppendFile(t, e.p, e.c)
         [] e.op = "remove_file"    -> RemoveFile(t, e.p)
         [] e.op = "remove_dir"     -> RemoveDir(t, e.p)
         [] e.op = "set_time"       -> SetTime(t, e.p, e.f, cfg.sup)
         [] e.op = "create_dir_all" -> CreateDirAll(t, e.p)
         [] e.op = "remove_dir_all" -> RemoveDirAll(t, e.p)
         [] e.op = "copy_file"      -> CopyFile(t, e.p, e.q)
         [] e.op = "move_file"      -> MoveFile(t, e.p, e.q)
         [] e.op = "copy_dir"       -> CopyDir(t, e.p, e.q)
         [] e.op = "move_dir"       -> MoveDir(t, e.p, e.q)
         [] OTHER                   -> Unspec(t)

\* --------------------------------------------- invariants of the contract
\* Frame (C01): a successful primitive changes only the entry it names; a recursive one only the
\* named subtree(s); a failed specified call changes nothing.
FrameOK(e, t, r) ==
  /\ (r.regime = "spec" /\ "ok" \notin r.allowed) => r.t = t
  /\ e.op \in {"create_dir", "create_file", "append_file", "remove_file", "remove_dir"}
        => \A x \in Universe : x # e.p => r.t[x] = t[x]
  /\ e.op \in {"create_dir_all"} => \A x \in Universe : x \notin Prefixes(e.p) => r.t[x] = t[x]
  /\ e.op \in {"remove_dir_all"} => \A x \in Universe : ~IsPrefix(e.p, x) => r.t[x] = t[x]
  /\ e.op \in {"copy_file", "copy_dir"} => \A x \in Universe : ~IsPrefix(e.q, x) => r.t[x] = t[x]
  /\ e.op \in {"move_file", "move_dir"} => \A x \in Universe : (~IsPrefix(e.q, x) /\ ~IsPrefix(e.p, x)) => r.t[x] = t[x]
  /\ e.op = "set_time" => r.t = t
=============================================================================
