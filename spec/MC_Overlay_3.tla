---- MODULE MC_Overlay_3 ----
EXTENDS MC_Overlay
U3 == << <<"a">>, <<"b">>, <<"a","a">> >>
UU == Range(U3)
C2 == { <<>>, <<1>> }
====
