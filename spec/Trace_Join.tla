----------------------------- MODULE Trace_Join -----------------------------
(* Trace validation for C06 (and the invalid-path part of C12): every recorded join / chain *)
(* call of the sync and async path types is compared with Level A (VfsJoin).               *)
EXTENDS VfsJoin, Integers, Json, IOUtils
Rec == ndJsonDeserialize(IOEnv.TRACE)
VARIABLE l
Report(kind, rec) == PrintT(<<kind, ToJson(rec)>>)

\* r : the record of one implementation (sync or async) for join(base, arg)
JoinBad(base, arg, r) ==
  IF r.c = "panic" THEN {"nopanic"}
  ELSE IF Rejects(arg) THEN (IF r.c = "invalid_path" THEN {} ELSE {"rejects"}) \cup (IF r.c = "invalid_path" /\ ~r.ep_is_arg THEN {"errpath"} ELSE {})
  ELSE LET want == Resolve(base, arg) IN
       IF r.c # "ok" THEN {"total"}
       ELSE (IF r.path = want THEN {} ELSE {"resolve"})
            \cup (IF Canonical(r.path) /\ r.strok THEN {} ELSE {"canonical"})
            \cup (IF r.parent = PParent(r.path) THEN {} ELSE {"parent"})
            \cup (IF r.filename = Filename(r.path) THEN {} ELSE {"filename"})
            \cup (IF r.ext.some = HasExt(Filename(r.path)) /\ (r.ext.some => r.ext.v = Ext(Filename(r.path))) THEN {} ELSE {"extension"})
            \cup (IF r.is_root = (r.path = <<>>) /\ r.root_is_root THEN {} ELSE {"is_root"})
            \cup (IF r.eq_same /\ ~r.eq_other THEN {} ELSE {"equality"})

\* chains of join / parent / root
RECURSIVE Fold(_, _, _)
Fold(p, steps, i) ==
  IF i > Len(steps) THEN [ok |-> TRUE, p |-> p]
  ELSE LET s == steps[i] IN
       IF s.op = "join" THEN (IF Rejects(s.arg) THEN [ok |-> FALSE, p |-> p] ELSE Fold(Resolve(p, s.arg), steps, i + 1))
       ELSE IF s.op = "parent" THEN Fold(PParent(p), steps, i + 1)
       ELSE Fold(<<>>, steps, i + 1)
ChainBad(e, r) ==
  IF r.c = "panic" THEN {"nopanic"}
  ELSE LET w == Fold(<<>>, e.steps, 1) IN
       IF ~w.ok THEN (IF r.c = "invalid_path" THEN {} ELSE {"rejects"})
       ELSE IF r.c # "ok" THEN {"total"} ELSE IF r.path = w.p THEN {} ELSE {"chain"}

\* what was judged (vacuity guard): TLC registers, single worker; totals are printed with DONE
CN == [joins |-> 501, chains |-> 502, rejected |-> 503, resolved |-> 504, with_dotdot_above_root |-> 505]
Bump(i) == TLCSet(i, TLCGet(i) + 1)
BumpIf(c, i) == IF c THEN Bump(i) ELSE TRUE
Counters == [x \in DOMAIN CN |-> TLCGet(CN[x])]
Next ==
  /\ l <= Len(Rec)
  /\ LET e == Rec[l]
         bs == IF e.ev = "join" THEN JoinBad(e.base, e.arg, e.sync) ELSE ChainBad(e, e.sync)
         ba == IF e.ev = "join" THEN JoinBad(e.base, e.arg, e.async) ELSE ChainBad(e, e.async) IN
     /\ BumpIf(e.ev = "join", CN.joins) /\ BumpIf(e.ev # "join", CN.chains)
     /\ BumpIf(e.ev = "join" /\ Rejects(e.arg), CN.rejected) /\ BumpIf(e.ev = "join" /\ ~Rejects(e.arg), CN.resolved)
     /\ (IF bs \cup ba = {} THEN TRUE
          ELSE Report("VIOL", [l |-> l, seg |-> l, secondary |-> FALSE, conjs |-> bs \cup ba,
                          sig |-> [conj |-> CHOOSE c \in bs \cup ba : TRUE, op |-> e.ev, kind |-> "join", cfg |-> "join",
                                   sync |-> bs, async |-> ba,
                                   shape |-> IF e.ev = "join" THEN [abs |-> (e.arg # <<>> /\ e.arg[1] = "/"), updepth |-> Len(e.base), rejects |-> Rejects(e.arg)] ELSE [abs |-> FALSE, updepth |-> 0, rejects |-> FALSE]]]))
  /\ l' = l + 1
Init == l = 1 /\ \A x \in DOMAIN CN : TLCSet(CN[x], 0)
TrSpec == Init /\ [][Next]_l
Consumed ==
  IF TLCGet("stats").diameter - 1 = Len(Rec) THEN Report("DONE", [events |-> Len(Rec), judged |-> Counters])
  ELSE Report("STUCK", [at |-> TLCGet("stats").diameter, of |-> Len(Rec)]) /\ FALSE
=============================================================================
