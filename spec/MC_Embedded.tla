---------------------------- MODULE MC_Embedded ----------------------------
EXTENDS Embedded
CONSTANTS USeq
VARIABLE F
Init == F \in {S \in SUBSET Universe : S # {} /\ PrefixFree(S)}
Next == UNCHANGED F
Spec == Init /\ [][Next]_F
T == Implied(F)
FaithfulView ==
  /\ WellFormed(T)
  /\ \A p \in Universe : EExists(F, p) = (T[p].k # "none")
  /\ \A p \in Universe : EIsDir(F, p) = (T[p].k = "dir")
  /\ \A p \in Universe \cup {Root} :
       LET r == EReadDir(F, p) IN
       IF Kind(T, p) = "dir" THEN r.c = "ok" /\ r.v = {Last(q) : q \in Children(T, p)}
       ELSE IF Kind(T, p) = "file" THEN r.c = "err" ELSE r.c = "notfound"
=============================================================================
