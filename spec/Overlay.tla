------------------------------ MODULE Overlay ------------------------------
(***************************************************************************)
(* LEVEL B: OverlayFS (src/impls/overlay.rs, as repaired) behind the path  *)
(* layer, as a sequential algorithm over its layers.  Each layer is itself *)
(* a Level-A tree (the overlay talks to its layers through the path API);  *)
(* layer 1 is the write layer.  The whiteout markers the overlay keeps in  *)
(* the write layer under /.whiteout are modelled as the set `wo` of marked *)
(* paths (they are bookkeeping, not part of any layer's user-visible tree).*)
(*                                                                         *)
(*   Lookup(p)    marker hides lower entries unless the write layer has p  *)
(*   ReadPath(p)  every ancestor must be a visible directory               *)
(*   ReadDir(p)   union of the layers where p is a directory, minus marked *)
(*   EnsureParent copy-up of the parent chain (create_dir_all in layer 1)  *)
(*   create_dir   occupancy check in the union; when re-creating a marked  *)
(*                path the remaining lower entries get markers of their own*)
(*   remove_dir   must be an empty directory of the union                  *)
(*   remove_file  NO type check (known finding, pinned by the test suite)  *)
(*                                                                         *)
(* MC_Overlay checks that for EVERY initial content of the layers and      *)
(* every operation sequence the view refines Level A (C09), deletions      *)
(* persist and re-creation starts fresh (C10), lower layers never change   *)
(* (C08, by construction: only layer 1 and wo are variables).              *)
(***************************************************************************)
EXTENDS VfsPaths, Integers, TLC
CONSTANT Universe
INSTANCE VfsTree

\* ---- lookups (ls: sequence of layer trees, wo: set of marked paths)
HasIn(t, p) == t[p].k # "none"
FirstLayer(ls, p) == LET S == {i \in DOMAIN ls : HasIn(ls[i], p)} IN IF S = {} THEN 0 ELSE CHOOSE i \in S : \A j \in S : i <= j
Lookup(ls, wo, p) ==
  IF p \in wo /\ ~HasIn(ls[1], p) THEN Absent
  ELSE LET i == FirstLayer(ls, p) IN IF i = 0 THEN Absent ELSE ls[i][p]
StrictAncestors(p) == {SubSeq(p, 1, i) : i \in 1..(Len(p) - 1)}
ReadPath(ls, wo, p) ==
  IF p = Root THEN Dir
  ELSE IF \E a \in StrictAncestors(p) : Lookup(ls, wo, a).k # "dir" THEN Absent
  ELSE Lookup(ls, wo, p)
\* the tree a user of the overlay sees
View(ls, wo) == [p \in Universe |-> ReadPath(ls, wo, p)]
IsDirIn(t, p) == IF p = Root THEN TRUE ELSE t[p].k = "dir"
ListedKids(ls, wo, p) ==
  {q \in Universe : Parent(q) = p /\ (\E i \in DOMAIN ls : IsDirIn(ls[i], p) /\ HasIn(ls[i], q)) /\ ~(q \in wo /\ ~HasIn(ls[1], q))}

\* ---- results
Res(c, up, wo) == [c |-> c, up |-> up, wo |-> wo]
\* the write layer is driven through ITS path API: Level-A operators on the tree of layer 1
UpperCreateDirAll(up, p) ==       \* create_dir_all of the chain p (p may be the root: nothing to do)
  IF p = Root THEN [ok |-> TRUE, t |-> up]
  ELSE LET r == CreateDirAll(up, p) IN [ok |-> "ok" \in r.allowed, t |-> r.t]
EnsureParent(ls, wo, p) ==        \* OverlayFS::ensure_has_parent
  IF ReadPath(ls, wo, Parent(p)).k = "none" THEN [ok |-> FALSE, t |-> ls[1]]
  ELSE UpperCreateDirAll(ls[1], Parent(p))
GetParentOK(ls, wo, p) == ReadPath(ls, wo, Parent(p)).k = "dir"        \* VfsPath::get_parent through the overlay

OCreateDir(ls, wo, p) ==
  IF ~GetParentOK(ls, wo, p) THEN Res("err", ls[1], wo)
  ELSE LET e == EnsureParent(ls, wo, p) IN
       IF ~e.ok THEN Res("err", e.t, wo)
       ELSE LET ls2 == [ls EXCEPT ![1] = e.t]
                cur == ReadPath(ls2, wo, p) IN
            IF cur.k = "dir" THEN Res("dir_exists", e.t, wo)
            ELSE IF cur.k = "file" THEN Res("file_exists", e.t, wo)
            ELSE LET wo2 == IF p \in wo
                            THEN wo \cup {q \in Universe : Parent(q) = p /\ \E i \in DOMAIN ls : i > 1 /\ IsDirIn(ls[i], p) /\ HasIn(ls[i], q)}
                            ELSE wo
                     r == CreateDir(e.t, p) IN          \* write_path.create_dir()
                 IF "ok" \in r.allowed THEN Res("ok", r.t, wo2 \ {p}) ELSE Res("err", e.t, wo2)

OCreateFile(ls, wo, p, c) ==
  IF ~GetParentOK(ls, wo, p) THEN Res("err", ls[1], wo)
  ELSE LET e == EnsureParent(ls, wo, p) IN
       IF ~e.ok THEN Res("err", e.t, wo)
       ELSE LET ls2 == [ls EXCEPT ![1] = e.t] IN
            IF ReadPath(ls2, wo, p).k = "dir" THEN Res("err", e.t, wo)
            ELSE LET r == CreateFile(e.t, p, c) IN
                 IF "ok" \in r.allowed THEN Res("ok", r.t, wo \ {p}) ELSE Res("err", e.t, wo)

OAppendFile(ls, wo, p, c) ==
  IF HasIn(ls[1], p)
  THEN LET r == AppendFile(ls[1], p, c) IN IF "ok" \in r.allowed THEN Res("ok", r.t, wo) ELSE Res("err", ls[1], wo)
  ELSE LET src == ReadPath(ls, wo, p) IN
       IF src.k = "none" THEN Res("notfound", ls[1], wo)
       ELSE LET e == EnsureParent(ls, wo, p) IN
            IF ~e.ok THEN Res("err", e.t, wo)
            ELSE IF src.k # "file" THEN Res("err", e.t, wo)               \* copy_file of a directory fails
            ELSE Res("ok", [e.t EXCEPT ![p] = File(src.d \o c)], wo)       \* copy-up, then append in the write layer

ORemoveFile(ls, wo, p) ==
  IF ReadPath(ls, wo, p).k = "none" THEN Res("notfound", ls[1], wo)
  ELSE IF HasIn(ls[1], p)
       THEN LET r == RemoveFile(ls[1], p) IN IF "ok" \in r.allowed THEN Res("ok", r.t, wo \cup {p}) ELSE Res("err", ls[1], wo)
       ELSE Res("ok", ls[1], wo \cup {p})                                  \* KNOWN FINDING: no type check for lower-only entries

ORemoveDir(ls, wo, p) ==
  LET cur == ReadPath(ls, wo, p) IN
  IF cur.k = "none" THEN Res("notfound", ls[1], wo)
  ELSE IF cur.k # "dir" \/ ListedKids(ls, wo, p) # {} THEN Res("err", ls[1], wo)
  ELSE IF HasIn(ls[1], p)
       THEN LET r == RemoveDir(ls[1], p) IN IF "ok" \in r.allowed THEN Res("ok", r.t, wo \cup {p}) ELSE Res("err", ls[1], wo)
       ELSE Res("ok", ls[1], wo \cup {p})

\* VfsPath::create_dir_all over the overlay: fs.create_dir per prefix (no get_parent), DirectoryExists ignored
RECURSIVE OCreateDirAllFrom(_, _, _, _)
OCreateDirAllFrom(ls, wo, p, k) ==
  IF k > Len(p) THEN Res("ok", ls[1], wo)
  ELSE LET q == SubSeq(p, 1, k)
           e == EnsureParent(ls, wo, q) IN
       IF ~e.ok THEN Res("err", e.t, wo)
       ELSE LET ls2 == [ls EXCEPT ![1] = e.t]
                cur == ReadPath(ls2, wo, q) IN
            IF cur.k = "file" THEN Res("err", e.t, wo)
            ELSE IF cur.k = "dir" THEN OCreateDirAllFrom(ls2, wo, p, k + 1)
            ELSE LET wo2 == IF q \in wo
                            THEN wo \cup {x \in Universe : Parent(x) = q /\ \E i \in DOMAIN ls : i > 1 /\ IsDirIn(ls[i], q) /\ HasIn(ls[i], x)}
                            ELSE wo
                     r == CreateDir(e.t, q) IN
                 IF "ok" \in r.allowed THEN OCreateDirAllFrom([ls EXCEPT ![1] = r.t], wo2 \ {q}, p, k + 1) ELSE Res("err", e.t, wo2)

\* VfsPath::remove_dir_all over the overlay: exists, read_dir, metadata per child, recursion, remove_dir
RECURSIVE ORemoveDirAll(_, _, _)
RECURSIVE RemoveKids(_, _, _)
RemoveKids(ls, wo, kids) ==
  IF kids = {} THEN Res("ok", ls[1], wo)
  ELSE LET q == CHOOSE x \in kids : TRUE
           r == IF ReadPath(ls, wo, q).k = "file" THEN ORemoveFile(ls, wo, q) ELSE ORemoveDirAll(ls, wo, q) IN
       IF r.c # "ok" THEN r ELSE RemoveKids([ls EXCEPT ![1] = r.up], r.wo, kids \ {q})
ORemoveDirAll(ls, wo, p) ==
  LET cur == ReadPath(ls, wo, p) IN
  IF cur.k = "none" THEN Res("ok", ls[1], wo)
  ELSE IF cur.k = "file" THEN Res("err", ls[1], wo)
  ELSE LET r == RemoveKids(ls, wo, ListedKids(ls, wo, p)) IN
       IF r.c # "ok" THEN r ELSE ORemoveDir([ls EXCEPT ![1] = r.up], r.wo, p)

OApply(e, ls, wo) ==
  CASE e.op = "create_dir"     -> OCreateDir(ls, wo, e.p)
    [] e.op = "create_file"    -> OCreateFile(ls, wo, e.p, e.c)
    [] e.op = "append_file"    -> OAppendFile(ls, wo, e.p, e.c)
    [] e.op = "remove_file"    -> ORemoveFile(ls, wo, e.p)
    [] e.op = "remove_dir"     -> ORemoveDir(ls, wo, e.p)
    [] e.op = "create_dir_all" -> OCreateDirAllFrom(ls, wo, e.p, 1)
    [] e.op = "remove_dir_all" -> ORemoveDirAll(ls, wo, e.p)
=============================================================================
