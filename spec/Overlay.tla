------------------------------ MODULE Overlay ------------------------------
(***************************************************************************)
(* LEVEL B: OverlayFS (src/impls/overlay.rs, as repaired) behind the path  *)
(* layer, as a sequential algorithm over its layers.  Each layer is itself *)
(* a Level-A tree (the overlay talks to its layers through the path API);  *)
(* layer 1 is the write layer.  The whiteout markers the overlay keeps in  *)
(* the write layer under /.whiteout are modelled as the set `wo` of marked *)
(* paths (they are bookkeeping, not part of any layer's user-visible tree).*)
(*                                                                         *)
(*   Lookup(p)    marker hides lower entries unless the write layer has p  *)
(*   ReadPath(p)  every ancestor must be a visible directory               *)
(*   ReadDir(p)   union of the layers where p is a directory, minus marked *)
(*   EnsureParent copy-up of the parent chain (create_dir_all in layer 1)  *)
(*   create_dir   occupancy check in the union; when re-creating a marked  *)
(*                path the remaining lower entries get markers of their own*)
(*   remove_dir   must be an empty directory of the union                  *)
(*   remove_file  NO type check (known finding, pinned by the test suite)  *)
(*                                                                         *)
(* MC_Overlay checks that for EVERY initial content of the layers and      *)
(* every operation sequence the view refines Level A (C09), deletions      *)
(* persist and re-creation starts fresh (C10), lower layers never change   *)
(* (C08, by construction: only layer 1 and wo are variables).              *)
(***************************************************************************)
EXTENDS OverlayOps

\* VfsPath::create_dir_all over the overlay: fs.create_dir per prefix (no get_parent), DirectoryExists ignored
RECURSIVE OCreateDirAllFrom(_, _, _, _)
OCreateDirAllFrom(ls, wo, p, k) ==
  IF k > Len(p) THEN Res("ok", ls[1], wo)
  ELSE LET q == SubSeq(p, 1, k)
           e == EnsureParent(ls, wo, q) IN
       IF ~e.ok THEN Res("err", e.t, wo)
       ELSE LET ls2 == [ls EXCEPT ![1] = e.t]
                cur == ReadPath(ls2, wo, q) IN
            IF cur.k = "file" THEN Res("err", e.t, wo)
            ELSE IF cur.k = "dir" THEN OCreateDirAllFrom(ls2, wo, p, k + 1)
            ELSE LET wo2 == IF q \in wo
                            THEN wo \cup {x \in Universe : Parent(x) = q /\ \E i \in DOMAIN ls : i > 1 /\ IsDirIn(ls[i], q) /\ HasIn(ls[i], x)}
                            ELSE wo
                     r == CreateDir(e.t, q) IN
                 IF "ok" \in r.allowed THEN OCreateDirAllFrom([ls EXCEPT ![1] = r.t], wo2 \ {q}, p, k + 1) ELSE Res("err", e.t, wo2)

\* VfsPath::remove_dir_all over the overlay: exists, read_dir, metadata per child, recursion, remove_dir
RECURSIVE ORemoveDirAll(_, _, _)
RECURSIVE RemoveKids(_, _, _)
RemoveKids(ls, wo, kids) ==
  IF kids = {} THEN Res("ok", ls[1], wo)
  ELSE LET q == CHOOSE x \in kids : TRUE
           r == IF ReadPath(ls, wo, q).k = "file" THEN ORemoveFile(ls, wo, q) ELSE ORemoveDirAll(ls, wo, q) IN
       IF r.c # "ok" THEN r ELSE RemoveKids([ls EXCEPT ![1] = r.up], r.wo, kids \ {q})
ORemoveDirAll(ls, wo, p) ==
  LET cur == ReadPath(ls, wo, p) IN
  IF cur.k = "none" THEN Res("ok", ls[1], wo)
  ELSE IF cur.k = "file" THEN Res("err", ls[1], wo)
  ELSE LET r == RemoveKids(ls, wo, ListedKids(ls, wo, p)) IN
       IF r.c # "ok" THEN r ELSE ORemoveDir([ls EXCEPT ![1] = r.up], r.wo, p)

OApply(e, ls, wo) ==
  CASE e.op = "create_dir"     -> OCreateDir(ls, wo, e.p)
    [] e.op = "create_file"    -> OCreateFile(ls, wo, e.p, e.c)
    [] e.op = "append_file"    -> OAppendFile(ls, wo, e.p, e.c)
    [] e.op = "remove_file"    -> ORemoveFile(ls, wo, e.p)
    [] e.op = "remove_dir"     -> ORemoveDir(ls, wo, e.p)
    [] e.op = "create_dir_all" -> OCreateDirAllFrom(ls, wo, e.p, 1)
    [] e.op = "remove_dir_all" -> ORemoveDirAll(ls, wo, e.p)
=============================================================================
