------------------------------ MODULE VfsObs ------------------------------
(***************************************************************************)
(* LEVEL A -- what a user can observe.  An OBSERVATION RECORD is what the   *)
(* harness obtains from the real code by calling every observer of the     *)
(* public API on every path of the universe (present or not) plus the root:*)
(*   ex  = exists()          md = metadata()      isf/isd = is_file/is_dir *)
(*   ls  = read_dir()        op = open_file()     rd = read_to_end         *)
(*   rts = read_to_string()  walk = walk_dir() from the root               *)
(* Each sub-observation carries its own outcome class c (and error path ep)*)
(* so the record is meaningful even when observers disagree.               *)
(*                                                                         *)
(* Three kinds of judgement, all evaluated by TLC:                         *)
(*   ObsMatches(o, t)   the record is exactly what tree t prescribes (C01) *)
(*   ObserversAgree(o)  the observers tell one consistent story      (C05) *)
(*   WellFormedObs(o)   the observed namespace is a tree             (C03) *)
(* The last two never look at the model state.                             *)
(***************************************************************************)
EXTENDS VfsPaths, Integers, TLC

CONSTANT USeq              \* the universe as a sequence (parents before children); obs.ents = <<root>> \o USeq order
Universe == Range(USeq)
INSTANCE VfsTree

PIdx == [p \in Universe |-> CHOOSE i \in 1..Len(USeq) : USeq[i] = p]
Ent(o, p) == IF p = Root THEN o.ents[1] ELSE o.ents[PIdx[p] + 1]

ChildNames(t, p) == {Last(q) : q \in Children(t, p)}
SeqIsSet(s, S) == Len(s) = Cardinality(S) /\ Range(s) = S      \* a listing without duplicates equal to S

\* ------------------------------------------------------ C01: obs vs tree
EntMatches(x, t, p) ==
  LET k == Kind(t, p)  d == Data(t, p) IN
  /\ x.ex.c = "ok" /\ x.ex.v = (k # "none")
  /\ IF k = "none" THEN x.md.c \in Missing(t, p)
     ELSE x.md.c = "ok" /\ x.md.k = k /\ x.md.len = Len(d)
  /\ x.isf.c = "ok" /\ x.isf.v = (k = "file")
  /\ x.isd.c = "ok" /\ x.isd.v = (k = "dir")
  /\ CASE k = "dir"  -> x.ls.c = "ok" /\ SeqIsSet(x.ls.v, ChildNames(t, p))
       [] k = "none" -> x.ls.c \in Missing(t, p)
       [] OTHER      -> x.ls.c \in AnyErr
  /\ CASE k = "file" -> x.op.c = "ok" /\ x.rd.c = "ok" /\ x.rd.v = d
       [] k = "none" -> x.op.c \in Missing(t, p)
       [] OTHER      -> x.op.c \in AnyErr
  /\ CASE k = "file" -> IF Utf8(d) THEN x.rts.c = "ok" /\ x.rts.same ELSE x.rts.c \in AnyErr
       [] k = "none" -> x.rts.c \in Missing(t, p)
       [] OTHER      -> x.rts.c \in AnyErr

WalkMatches(w, S) ==            \* S = set of paths that must be yielded
  /\ w.c = "ok" /\ w.nerr = 0
  /\ SeqIsSet(w.v, S)
  /\ \A i, j \in DOMAIN w.v : i < j => ~StrictPrefix(w.v[j], w.v[i])    \* a directory before anything inside it

ObsMatches(o, t) ==
  /\ \A p \in AllPaths : EntMatches(Ent(o, p), t, p)
  /\ WalkMatches(o.walk, Present(t))

\* which paths of the universe differ between the record and the tree (for signatures)
ObsTreeKind(x) == IF x.md.c = "ok" THEN x.md.k ELSE "none"
TreeOfObs(o) == [p \in Universe |->
                   LET x == Ent(o, p) IN
                   IF x.md.c # "ok" THEN Absent
                   ELSE IF x.md.k = "dir" THEN Dir
                   ELSE File(IF x.rd.c = "ok" THEN x.rd.v ELSE <<-1>>)]
DiffPaths(o, t) == {p \in AllPaths : ~EntMatches(Ent(o, p), t, p)}

\* ------------------------------------------- C03: the namespace is a tree
WellFormedObs(o) ==
  /\ Ent(o, Root).ex.v /\ Ent(o, Root).isd.v
  /\ \A p \in Universe : Ent(o, p).ex.v => Ent(o, Parent(p)).isd.v
  \* reachable from the root through listings
  /\ \A p \in Universe : Ent(o, p).ex.v =>
        (Ent(o, Parent(p)).ls.c = "ok" /\ Last(p) \in Range(Ent(o, Parent(p)).ls.v))

\* ------------------------------------------ C05: observers agree with each other
Count(s, n) == Cardinality({i \in DOMAIN s : s[i] = n})
EntAgrees(o, p) ==
  LET x == Ent(o, p) IN
  /\ x.ex.c = "ok" /\ x.isf.c = "ok" /\ x.isd.c = "ok"
  /\ x.ex.v <=> (x.md.c = "ok")
  /\ x.ex.v <=> (x.isf.v \/ x.isd.v)
  /\ ~(x.isf.v /\ x.isd.v)
  /\ x.isd.v <=> (x.ls.c = "ok")                          \* a directory iff it can be listed
  /\ x.isf.v <=> (x.op.c = "ok" /\ x.rd.c = "ok")          \* a file iff it can be read
  /\ x.isd.v => (x.md.c = "ok" /\ x.md.k = "dir" /\ x.md.len = 0)
  /\ x.isf.v => (x.md.c = "ok" /\ x.md.k = "file" /\ x.md.len = Len(x.rd.v))
  /\ (x.rts.c = "ok") => (x.isf.v /\ x.rts.same)
  \* listed names are bare children inside the universe (a foreign name is recorded as "!...")
  /\ x.ls.c = "ok" => \A i \in DOMAIN x.ls.v : Append(p, x.ls.v[i]) \in Universe
  \* exists iff the parent lists the name exactly once
  /\ p # Root => LET par == Ent(o, Parent(p)) IN
                 IF par.ls.c = "ok" THEN (x.ex.v <=> Count(par.ls.v, Last(p)) = 1) /\ Count(par.ls.v, Last(p)) <= 1
                 ELSE ~x.ex.v
WalkAgrees(o) ==
  /\ o.walk.c = "ok" /\ o.walk.nerr = 0
  /\ \A i \in DOMAIN o.walk.v : o.walk.v[i] \in Universe
  /\ SeqIsSet(o.walk.v, {p \in Universe : Ent(o, p).ex.v})
  /\ \A i, j \in DOMAIN o.walk.v : i < j => ~StrictPrefix(o.walk.v[j], o.walk.v[i])
ObserversAgree(o) == (\A p \in AllPaths : EntAgrees(o, p)) /\ WalkAgrees(o)

\* --------------------------------------------------------- C13: no panic
NoPanicObs(o) ==
  /\ \A p \in AllPaths : LET x == Ent(o, p) IN
       \A c \in {x.ex.c, x.md.c, x.isf.c, x.isd.c, x.ls.c, x.op.c, x.rd.c, x.rts.c} : c # "panic"
  /\ o.walk.c # "panic"

\* ------------------------------------------ C12: error paths and classes
\* an error path is acceptable for a call on p (and destination q) iff it is a path of the
\* caller's namespace (names of the universe only -- never a placeholder, a raw inner path or a
\* foreign name) that is p, q, or an ancestor/descendant of one of them.
InNamespace(ep) == \A i \in DOMAIN ep : ep[i] \in Names
EpOK(ep, p, q) == InNamespace(ep) /\ (Related(ep, p) \/ Related(ep, q))
ObsErrPathsOK(o) ==
  /\ \A p \in AllPaths : LET x == Ent(o, p) IN
       /\ x.md.c  \in ErrClasses => EpOK(x.md.ep,  p, p)
       /\ x.ls.c  \in ErrClasses => EpOK(x.ls.ep,  p, p)
       /\ x.op.c  \in ErrClasses => EpOK(x.op.ep,  p, p)
       /\ x.rts.c \in ErrClasses => EpOK(x.rts.ep, p, p)
  /\ o.walk.c \in ErrClasses => EpOK(o.walk.ep, Root, Root)
=============================================================================
