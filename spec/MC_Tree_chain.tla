-------------------------- MODULE MC_Tree_chain --------------------------
(* a chain five levels deep plus one sibling at the root: loops over path prefixes (create_dir_all, parent
   checks, ancestor visibility in overlays, re-rooting) beyond the depth the other instances reach *)
EXTENDS MC_Tree
U_chain == << <<"a">>, <<"b">>, <<"a","a">>, <<"a","a","a">>, <<"a","a","a","a">>, <<"a","a","a","a","a">> >>
C_set == { <<>>, <<1>> }
C_create == { <<>>, <<1>> }
C_append == { <<1>> }
=============================================================================
