------------------------------ MODULE Altroot ------------------------------
(***************************************************************************)
(* LEVEL B: AltrootFS (src/impls/altroot.rs): every operation on path q of *)
(* the altroot is the same operation on P \o q of the underlying           *)
(* filesystem; the view is the subtree below P.  Because the underlying    *)
(* filesystem itself satisfies Level A, C07 reduces to a law of the        *)
(* contract: Level A is invariant under re-rooting.  MC_Altroot checks it  *)
(* for every underlying tree (with content beside and above P), every      *)
(* operation and argument:                                                 *)
(*   TwinEqual        same outcome classes, regime and value               *)
(*   ViewCommutes     Sub(Apply(P.e, under)) = Apply(e, Sub(under))        *)
(*   OutsideUnchanged nothing outside P changes                            *)
(***************************************************************************)
EXTENDS VfsPaths, Integers, TLC
CONSTANTS UBig, USmall, P          \* UBig: universe of the underlying filesystem; USmall: of the altroot; P: the altroot directory
Big == INSTANCE VfsTree WITH Universe <- UBig
Small == INSTANCE VfsTree WITH Universe <- USmall

ASSUME \A q \in USmall : P \o q \in UBig
Sub(t) == [q \in USmall |-> t[P \o q]]                              \* the altroot view of an underlying tree
Tr(e) == [e EXCEPT !.p = P \o e.p, !.q = IF e.q = <<>> THEN <<>> ELSE P \o e.q]   \* AltrootFS::path
Inside(x) == IsPrefix(P, x) /\ x # P
=============================================================================
