----------------------------- MODULE WalkAsync -----------------------------
(* LEVEL B: WalkDirIterator::poll_next of the async port (src/async_vfs/path.rs) with its five fields      *)
(* (inner, todo, prev_result, read_dir_fut, metadata_fut) and an environment that makes any inner poll     *)
(* return Pending (bounded budget).  C15: for all trees, listing orders and pending schedules the stream     *)
(* yields every descendant exactly once, parents first, and exactly the sequence of the synchronous walk.   *)
\* Level B: async_vfs WalkDirIterator::poll_next (src/async_vfs/path.rs:1048) with nondeterministic Pending.
EXTENDS Naturals, Sequences, FiniteSets, TLC
CONSTANTS Trees,      \* set of trees: each a function path -> "dir" | "file" over a prefix-closed set of non-root paths
          MaxPend     \* total number of Pending results the environment may inject
Par(p) == SubSeq(p, 1, Len(p)-1)
Kids(t, d) == {q \in DOMAIN t : Par(q) = d}
\* a listing order per directory is an arbitrary permutation; fixed per behaviour (HashMap order)
Perms(S) == {s \in [1..Cardinality(S) -> S] : \A i, j \in 1..Cardinality(S) : i # j => s[i] # s[j]}
VARIABLES tree, order,          \* the filesystem and its (arbitrary but fixed) listing orders
          inner, todo, prev, rdfut, mdfut,   \* the five fields of the iterator
          out, pend, done
vars == <<tree, order, inner, todo, prev, rdfut, mdfut, out, pend, done>>
Dirs(t) == {<<>>} \cup {p \in DOMAIN t : t[p] = "dir"}
Init == /\ tree \in Trees
        /\ order \in [Dirs(tree) -> UNION {Perms(Kids(tree, d)) : d \in Dirs(tree)}]
        /\ \A d \in Dirs(tree) : order[d] \in Perms(Kids(tree, d))
        /\ inner = order[<<>>]       \* walk_dir(): inner = read_dir(root)
        /\ todo = <<>> /\ prev = <<>> /\ rdfut = FALSE /\ mdfut = FALSE
        /\ out = <<>> /\ pend = 0 /\ done = FALSE
\* environment: may a poll of an inner future/stream return Pending now?
MayPend == pend < MaxPend
\* One call of poll_next. It is written as a sequence of phases inside one atomic step, with the
\* nondeterministic Pending choices exposed as disjuncts.
\* Phase A (prev_result is none): obtain the next path, possibly switching directories.
RECURSIVE PhaseA(_, _, _)
\* returns set of records [kind: "pending"|"item"|"end", inner, todo, rdfut, path, pends]
PhaseA(inn, td, rf) ==
  IF inn # <<>> THEN
       {[kind |-> "item", inner |-> Tail(inn), todo |-> td, rdfut |-> rf, path |-> Head(inn), pends |-> 0]}
       \cup (IF MayPend THEN {[kind |-> "pending", inner |-> inn, todo |-> td, rdfut |-> rf, path |-> <<>>, pends |-> 1]} ELSE {})  \* stream.poll_next Pending
  ELSE IF td = <<>> THEN {[kind |-> "end", inner |-> inn, todo |-> td, rdfut |-> rf, path |-> <<>>, pends |-> 0]}
  ELSE \* poll (stored or new) read_dir future for the last todo directory
       (IF MayPend THEN {[kind |-> "pending", inner |-> inn, todo |-> td, rdfut |-> TRUE, path |-> <<>>, pends |-> 1]} ELSE {})
       \cup PhaseA(order[td[Len(td)]], SubSeq(td, 1, Len(td)-1), FALSE)
\* Phase B: metadata of the path; push directories; emit
PhaseB(path, inn, td, rf) ==
     {[kind |-> "emit", inner |-> inn, todo |-> IF tree[path] = "dir" THEN Append(td, path) ELSE td, rdfut |-> rf, prev |-> <<>>, mdfut |-> FALSE, path |-> path, pends |-> 0]}
     \cup (IF MayPend THEN {[kind |-> "pending", inner |-> inn, todo |-> td, rdfut |-> rf, prev |-> path, mdfut |-> TRUE, path |-> path, pends |-> 1]} ELSE {})
Poll ==
  /\ ~done
  /\ \/ /\ prev = <<>>
        /\ \E a \in PhaseA(inner, todo, rdfut) :
             \/ /\ a.kind = "pending"
                /\ inner' = a.inner /\ todo' = a.todo /\ rdfut' = a.rdfut /\ pend' = pend + a.pends
                /\ UNCHANGED <<prev, mdfut, out, done>>
             \/ /\ a.kind = "end"
                /\ done' = TRUE /\ inner' = a.inner /\ todo' = a.todo /\ rdfut' = a.rdfut
                /\ UNCHANGED <<prev, mdfut, out, pend>>
             \/ /\ a.kind = "item"
                /\ \E b \in PhaseB(a.path, a.inner, a.todo, a.rdfut) :
                     /\ inner' = b.inner /\ todo' = b.todo /\ rdfut' = b.rdfut /\ prev' = b.prev /\ mdfut' = b.mdfut
                     /\ pend' = pend + b.pends
                     /\ out' = IF b.kind = "emit" THEN Append(out, b.path) ELSE out
                     /\ UNCHANGED done
     \/ /\ prev # <<>>
        /\ \E b \in PhaseB(prev, inner, todo, rdfut) :
             /\ inner' = b.inner /\ todo' = b.todo /\ rdfut' = b.rdfut /\ prev' = b.prev /\ mdfut' = b.mdfut
             /\ pend' = pend + b.pends
             /\ out' = IF b.kind = "emit" THEN Append(out, b.path) ELSE out
             /\ UNCHANGED done
  /\ UNCHANGED <<tree, order>>
Spec == Init /\ [][Poll]_vars
\* ---- properties
IsPrefix(p, q) == Len(p) <= Len(q) /\ SubSeq(q, 1, Len(p)) = p
NoDup == \A i, j \in DOMAIN out : i # j => out[i] # out[j]
ParentsFirst == \A i \in DOMAIN out : \A a \in DOMAIN tree : (IsPrefix(a, out[i]) /\ a # out[i]) => \E j \in 1..(i-1) : out[j] = a
Complete == done => {out[i] : i \in DOMAIN out} = DOMAIN tree
\* the synchronous walk with the same listing orders
RECURSIVE SyncWalk(_, _, _)
SyncWalk(inn, td, acc) ==
  IF inn # <<>> THEN SyncWalk(Tail(inn), IF tree[Head(inn)] = "dir" THEN Append(td, Head(inn)) ELSE td, Append(acc, Head(inn)))
  ELSE IF td = <<>> THEN acc ELSE SyncWalk(order[td[Len(td)]], SubSeq(td, 1, Len(td)-1), acc)
SameAsSync == done => out = SyncWalk(order[<<>>], <<>>, <<>>)
Inv == NoDup /\ ParentsFirst /\ Complete /\ SameAsSync
\* liveness: a consumer that keeps polling reaches the end of the stream, whatever (boundedly many) polls
\* the environment answers with Pending - no state of the iterator can be polled forever without progress
FairSpec == Spec /\ WF_vars(Poll)
Terminates == <>done
=============================================================================
