----------------------------- MODULE PathLayer -----------------------------
(***************************************************************************)
(* LEVEL B: the composite algorithms of the path layer (src/path.rs and    *)
(* its async port) as loops over the primitive operations of the           *)
(* filesystem they run on (here: any filesystem that satisfies the Level-A *)
(* primitives and has no fast paths, i.e. the generic fallback code):      *)
(*   create_dir_all : create_dir per prefix, DirectoryExists tolerated     *)
(*   remove_dir_all : exists / read_dir / metadata per child / recursion   *)
(*   walk_dir       : iterator with a LIFO todo stack, directory yielded   *)
(*                    before it is pushed                                  *)
(*   copy_file / move_file : destination check, open + create + copy       *)
(*   copy_dir / move_dir   : create destination, walk, re-root by prefix   *)
(* MC_PathLayer checks that each loop has exactly the atomic effect (and   *)
(* count) Level A states, for every well-formed tree and every argument.   *)
(***************************************************************************)
EXTENDS VfsPaths, Integers, TLC
CONSTANT Universe
INSTANCE VfsTree

R(c, t, v) == [c |-> c, t |-> t, v |-> v]
IsOk(r) == "ok" \in r.allowed

\* ---- create_dir_all
RECURSIVE PLCreateDirAllFrom(_, _, _)
PLCreateDirAllFrom(t, p, k) ==
  IF k > Len(p) THEN R("ok", t, 0)
  ELSE LET q == SubSeq(p, 1, k)  r == CreateDir(t, q) IN
       IF IsOk(r) THEN PLCreateDirAllFrom(r.t, p, k + 1)
       ELSE IF r.allowed = {"dir_exists"} THEN PLCreateDirAllFrom(t, p, k + 1)
       ELSE R("err", t, 0)
PLCreateDirAll(t, p) == PLCreateDirAllFrom(t, p, 1)

\* ---- remove_dir_all
RECURSIVE PLRemoveDirAll(_, _)
RECURSIVE PLRemoveKids(_, _)
PLRemoveKids(t, kids) ==
  IF kids = {} THEN R("ok", t, 0)
  ELSE LET q == CHOOSE x \in kids : TRUE
           r == IF t[q].k = "file" THEN (LET x == RemoveFile(t, q) IN R(IF IsOk(x) THEN "ok" ELSE "err", x.t, 0)) ELSE PLRemoveDirAll(t, q) IN
       IF r.c # "ok" THEN r ELSE PLRemoveKids(r.t, kids \ {q})
PLRemoveDirAll(t, p) ==
  IF t[p].k = "none" THEN R("ok", t, 0)
  ELSE IF t[p].k = "file" THEN R("err", t, 0)                        \* read_dir of a file fails
  ELSE LET r == PLRemoveKids(t, Children(t, p)) IN
       IF r.c # "ok" THEN r
       ELSE LET x == RemoveDir(r.t, p) IN R(IF IsOk(x) THEN "ok" ELSE "err", x.t, 0)

\* ---- walk_dir (listing order per directory = CHOOSE-fixed; the property only needs set + order constraints)
SeqOfSet(S) == CHOOSE s \in [1..Cardinality(S) -> S] : \A i, j \in 1..Cardinality(S) : i # j => s[i] # s[j]
RECURSIVE WalkFrom(_, _, _, _)
WalkFrom(t, inner, todo, acc) ==
  IF inner # <<>> THEN
       LET x == Head(inner) IN
       WalkFrom(t, Tail(inner), IF t[x].k = "dir" THEN Append(todo, x) ELSE todo, Append(acc, x))
  ELSE IF todo = <<>> THEN acc
  ELSE LET d == todo[Len(todo)] IN WalkFrom(t, SeqOfSet(Children(t, d)), SubSeq(todo, 1, Len(todo) - 1), acc)
Walk(t, p) == WalkFrom(t, SeqOfSet(Children(t, p)), <<>>, <<>>)

\* ---- copy_file / move_file (generic fallback: no copy_file / move_file of the filesystem itself)
GetParentOK(t, p) == IsDirAt(t, Parent(p))
PLCopyFile(t, s, d) ==
  IF t[d].k # "none" THEN R("err", t, 0)                              \* "Destination exists already"
  ELSE IF t[s].k # "file" THEN R("err", t, 0)                         \* open_file fails
  ELSE IF ~GetParentOK(t, d) THEN R("err", t, 0)                      \* create_file: get_parent
  ELSE R("ok", [t EXCEPT ![d] = File(t[s].d)], 0)
PLMoveFile(t, s, d) ==
  LET r == PLCopyFile(t, s, d) IN
  IF r.c # "ok" THEN r ELSE R("ok", [r.t EXCEPT ![s] = Absent], 0)   \* remove_file(source)

\* ---- copy_dir / move_dir
RECURSIVE CopyItems(_, _, _, _, _)
CopyItems(t, items, s, d, n) ==
  IF items = <<>> THEN R("ok", t, n)
  ELSE LET x == Head(items)
           y == ReRoot(x, s, d) IN
       IF y \notin Universe THEN R("err", t, n)
       ELSE IF t[x].k = "dir"
            THEN (LET r == CreateDir(t, y) IN IF IsOk(r) THEN CopyItems(r.t, Tail(items), s, d, n + 1) ELSE R("err", t, n))
            ELSE (LET r == PLCopyFile(t, x, y) IN IF r.c = "ok" THEN CopyItems(r.t, Tail(items), s, d, n + 1) ELSE R("err", t, n))
PLCopyDir(t, s, d) ==
  IF t[d].k # "none" THEN R("err", t, 0)
  ELSE LET c == CreateDir(t, d) IN
       IF ~IsOk(c) THEN R("err", t, 0)
       ELSE IF t[s].k # "dir" THEN R("err", c.t, 0)                   \* walk_dir(source) fails AFTER the destination was created
       ELSE CopyItems(c.t, Walk(t, s), s, d, 0)                       \* (the walk is lazy; the source subtree is disjoint from d)
PLMoveDir(t, s, d) ==
  LET r == PLCopyDir(t, s, d) IN
  IF r.c # "ok" THEN r ELSE (LET x == PLRemoveDirAll(r.t, s) IN R(x.c, x.t, 0))
=============================================================================
