-------------------------- MODULE MC_Tree_wide --------------------------
(* five siblings in the root directory and one child: listings, merges and per-child loops over more
   entries than the two-name instances have *)
EXTENDS MC_Tree
U_wide == << <<"a">>, <<"b">>, <<"c">>, <<"d">>, <<"e">>, <<"a","a">> >>
C_set == { <<>>, <<1>> }
C_create == { <<1>> }
C_append == { <<1>> }
=============================================================================
