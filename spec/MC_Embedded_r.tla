---- MODULE MC_Embedded_r ----
(* replay instance: every prefix-free file list over nine paths is model-checked (FaithfulView) and emitted
   as a CASE line; the harness builds an EmbeddedFS over exactly that file list (a hand-written RustEmbed
   implementation) and TLC judges what it shows (Trace_Tree, read-only regime, truth = the same files on a
   MemoryFS) *)
EXTENDS MC_Embedded, Json, SequencesExt
U9 == << <<"a">>, <<"b">>, <<"c">>, <<"a","a">>, <<"a","b">>, <<"b","a">>, <<"a","a","a">>, <<"a","a","b">>, <<"a","b","a">> >>
UU == Range(U9)
Emit == PrintT(<<"CASE", ToJson([files |-> SetToSeq(F)])>>)
====
