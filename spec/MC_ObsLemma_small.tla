---- MODULE MC_ObsLemma_small ----
EXTENDS MC_ObsLemma
U_small == << <<"a">>, <<"b">>, <<"a","a">>, <<"a","b">>, <<"b","a">>, <<"b","b">> >>
C_set == { <<>>, <<1>>, <<1,2>> }
====
