----------------------------- MODULE PathLemmas -----------------------------
EXTENDS VfsPaths, TLAPS, SequenceTheorems

LEMMA ParentLen == ASSUME NEW S, NEW q \in Seq(S), q # <<>> PROVE Parent(q) \in Seq(S) /\ Len(Parent(q)) = Len(q) - 1
  BY DEF Parent

LEMMA ParentNeq == ASSUME NEW S, NEW q \in Seq(S), q # <<>> PROVE Parent(q) # q
  BY ParentLen

LEMMA PrefixOfParent ==
  ASSUME NEW S, NEW p \in Seq(S), NEW q \in Seq(S), q # <<>>, IsPrefix(p, Parent(q))
  PROVE  IsPrefix(p, q)
  BY ParentLen DEF IsPrefix, Parent

LEMMA StrictPrefixParent ==
  ASSUME NEW S, NEW p \in Seq(S), NEW q \in Seq(S), StrictPrefix(p, q)
  PROVE  IsPrefix(p, Parent(q)) /\ q # <<>>
  BY DEF IsPrefix, StrictPrefix, Parent

LEMMA ReRootType ==
  ASSUME NEW S, NEW d \in Seq(S), NEW s \in Seq(S), NEW q \in Seq(S), IsPrefix(d, q)
  PROVE  ReRoot(q, d, s) \in Seq(S) /\ Len(ReRoot(q, d, s)) = Len(s) + Len(q) - Len(d)
  BY DEF ReRoot, IsPrefix

LEMMA ReRootParent ==
  ASSUME NEW S, NEW d \in Seq(S), NEW s \in Seq(S), NEW q \in Seq(S), q # <<>>, StrictPrefix(d, Parent(q))
  PROVE  ReRoot(Parent(q), d, s) = Parent(ReRoot(q, d, s)) /\ Parent(ReRoot(q, d, s)) # <<>>
<1> DEFINE X == SubSeq(q, Len(d) + 1, Len(q))
<1> DEFINE Y == SubSeq(q, Len(d) + 1, Len(q) - 1)
<1>0. Len(Parent(q)) = Len(q) - 1 /\ Len(d) < Len(q) - 1 /\ Parent(q) = SubSeq(q, 1, Len(q) - 1) BY DEF StrictPrefix, Parent
<1>1. X \in Seq(S) /\ Len(X) = Len(q) - Len(d) BY <1>0
<1>2. Y \in Seq(S) /\ Len(Y) = Len(q) - 1 - Len(d) BY <1>0
<1>3. ReRoot(q, d, s) = s \o X BY DEF ReRoot
<1>4. SubSeq(Parent(q), Len(d) + 1, Len(Parent(q))) = Y
  <2>1. SubSeq(Parent(q), Len(d) + 1, Len(Parent(q))) \in Seq(S) /\ Len(SubSeq(Parent(q), Len(d) + 1, Len(Parent(q)))) = Len(Y) BY <1>0, <1>2
  <2>2. \A i \in 1..Len(Y) : SubSeq(Parent(q), Len(d) + 1, Len(Parent(q)))[i] = Y[i] BY <1>0, <1>2
  <2> QED BY <2>1, <2>2, <1>2, SeqEqual
<1>5. ReRoot(Parent(q), d, s) = s \o Y BY <1>4 DEF ReRoot
<1>6. s \o X # <<>> /\ Len(s \o X) = Len(s) + Len(X) /\ s \o X \in Seq(S) BY <1>1, <1>0
<1>7. Parent(s \o X) = SubSeq(s \o X, 1, Len(s) + Len(X) - 1) BY <1>6 DEF Parent
<1>8. SubSeq(s \o X, 1, Len(s) + Len(X) - 1) = s \o Y
  <2> DEFINE L == SubSeq(s \o X, 1, Len(s) + Len(X) - 1)
  <2>1. L \in Seq(S) /\ Len(L) = Len(s) + Len(X) - 1 BY <1>0, <1>1, <1>6, SubSeqProperties
  <2>2. s \o Y \in Seq(S) /\ Len(s \o Y) = Len(s) + Len(Y) BY <1>2
  <2>3. Len(L) = Len(s \o Y) BY <2>1, <2>2, <1>1, <1>2
  <2>4. \A i \in 1..Len(L) : L[i] = (s \o Y)[i] BY <1>0, <1>1, <1>2, <2>1
  <2> QED BY <2>1, <2>2, <2>3, <2>4, SeqEqual
<1>9. Len(s \o Y) >= 1 BY <1>2, <1>0
<1> QED BY <1>3, <1>5, <1>7, <1>8, <1>9

LEMMA PrefixRefl == ASSUME NEW S, NEW q \in Seq(S) PROVE IsPrefix(q, q)
  BY DEF IsPrefix
LEMMA StrictIsPrefix == ASSUME NEW p, NEW q, StrictPrefix(p, q) PROVE IsPrefix(p, q)
  BY DEF IsPrefix, StrictPrefix
=============================================================================
