--------------------------- MODULE VfsTreeProofs ---------------------------
(***************************************************************************)
(* Unbounded part of C03 / C01 on the contract itself: for ANY universe    *)
(* (any set of non-empty paths closed under Parent, over any name set) and *)
(* ANY well-formed tree, every Level-A operation yields a well-formed tree *)
(* and respects its frame.  Checked by the TLA+ proof system (tlapm); TLC  *)
(* checks the same statements exhaustively for the bounded universes.      *)
(***************************************************************************)
EXTENDS VfsTree, PathLemmas

CONSTANT N
UniverseOK == /\ Universe \subseteq Seq(N)
              /\ <<>> \notin Universe
              /\ \A p \in Universe : Parent(p) = <<>> \/ Parent(p) \in Universe
TreeType(t) == t \in [Universe -> [k : {"none", "dir", "file"}, d : Seq(Nat)]]

LEMMA KindDir ==
  ASSUME NEW t, NEW x, IsDirAt(t, x), x # Root PROVE x \in Universe /\ t[x].k = "dir"
  BY DEF IsDirAt, Kind

THEOREM CreateDirWF ==
  ASSUME UniverseOK, NEW t, TreeType(t), WellFormed(t), NEW p \in Universe
  PROVE  WellFormed(CreateDir(t, p).t)
<1>1. CASE ~(IsDirAt(t, Parent(p)) /\ t[p].k = "none") BY <1>1 DEF CreateDir, Fail, TreeType
<1>4. CASE IsDirAt(t, Parent(p)) /\ t[p].k = "none"
  <2> DEFINE u == [t EXCEPT ![p] = Dir]
  <2>1. CreateDir(t, p).t = u BY <1>4 DEF CreateDir, Ok
  <2>2. \A q \in Universe : u[q].k # "none" => IsDirAt(u, Parent(q))
    BY <1>4 DEF WellFormed, IsDirAt, Kind, Dir, TreeType, Root
  <2> QED BY <2>1, <2>2 DEF WellFormed
<1> QED BY <1>1, <1>4

THEOREM CreateFileWF ==
  ASSUME UniverseOK, NEW t, TreeType(t), WellFormed(t), NEW p \in Universe, NEW c \in Seq(Nat)
  PROVE  WellFormed(CreateFile(t, p, c).t)
<1>1. CASE ~IsDirAt(t, Parent(p)) \/ t[p].k = "dir" BY <1>1 DEF CreateFile, Fail
<1>2. CASE ~(~IsDirAt(t, Parent(p)) \/ t[p].k = "dir")
  <2> DEFINE u == [t EXCEPT ![p] = File(c)]
  <2>1. CreateFile(t, p, c).t = u BY <1>2 DEF CreateFile, Ok
  <2>2. ASSUME NEW q \in Universe, u[q].k # "none" PROVE IsDirAt(u, Parent(q))
    <3>1. CASE q = p BY <1>2, <3>1, ParentNeq, UniverseOK DEF IsDirAt, Kind, File, TreeType, Root, UniverseOK
    <3>2. CASE q # p
      <4>1. t[q].k # "none" BY <3>2, <2>2 DEF TreeType
      <4>2. IsDirAt(t, Parent(q)) BY <4>1 DEF WellFormed
      <4>3. Parent(q) # p BY <4>2, <1>2, UniverseOK DEF IsDirAt, Kind, Root, UniverseOK
      <4> QED BY <4>2, <4>3 DEF IsDirAt, Kind, TreeType
    <3> QED BY <3>1, <3>2
  <2> QED BY <2>1, <2>2 DEF WellFormed
<1> QED BY <1>1, <1>2

THEOREM AppendFileWF ==
  ASSUME UniverseOK, NEW t, TreeType(t), WellFormed(t), NEW p \in Universe, NEW c \in Seq(Nat)
  PROVE  WellFormed(AppendFile(t, p, c).t)
<1>1. CASE t[p].k # "file" BY <1>1 DEF AppendFile, Fail
<1>2. CASE t[p].k = "file"
  <2> DEFINE u == [t EXCEPT ![p] = File(t[p].d \o c)]
  <2>1. AppendFile(t, p, c).t = u BY <1>2 DEF AppendFile, Ok
  <2>2. ASSUME NEW q \in Universe, u[q].k # "none" PROVE IsDirAt(u, Parent(q))
    <3>1. t[q].k # "none" BY <2>2, <1>2 DEF TreeType, File
    <3>2. IsDirAt(t, Parent(q)) BY <3>1 DEF WellFormed
    <3>3. Parent(q) # p BY <3>2, <1>2 DEF IsDirAt, Kind, Root, UniverseOK
    <3> QED BY <3>2, <3>3 DEF IsDirAt, Kind, TreeType
  <2> QED BY <2>1, <2>2 DEF WellFormed
<1> QED BY <1>1, <1>2

THEOREM RemoveFileWF ==
  ASSUME UniverseOK, NEW t, TreeType(t), WellFormed(t), NEW p \in Universe
  PROVE  WellFormed(RemoveFile(t, p).t)
<1>1. CASE t[p].k # "file" BY <1>1 DEF RemoveFile, Fail
<1>2. CASE t[p].k = "file"
  <2> DEFINE u == [t EXCEPT ![p] = Absent]
  <2>1. RemoveFile(t, p).t = u BY <1>2 DEF RemoveFile, Ok
  <2>2. ASSUME NEW q \in Universe, u[q].k # "none" PROVE IsDirAt(u, Parent(q))
    <3>0. q # p BY <2>2 DEF TreeType, Absent
    <3>1. t[q].k # "none" BY <2>2, <3>0 DEF TreeType
    <3>2. IsDirAt(t, Parent(q)) BY <3>1 DEF WellFormed
    <3>3. Parent(q) # p BY <3>2, <1>2 DEF IsDirAt, Kind, Root, UniverseOK
    <3> QED BY <3>2, <3>3 DEF IsDirAt, Kind, TreeType
  <2> QED BY <2>1, <2>2 DEF WellFormed
<1> QED BY <1>1, <1>2

THEOREM RemoveDirWF ==
  ASSUME UniverseOK, NEW t, TreeType(t), WellFormed(t), NEW p \in Universe
  PROVE  WellFormed(RemoveDir(t, p).t)
<1>1. CASE ~(t[p].k = "dir" /\ Children(t, p) = {}) BY <1>1 DEF RemoveDir, Fail
<1>2. CASE t[p].k = "dir" /\ Children(t, p) = {}
  <2> DEFINE u == [t EXCEPT ![p] = Absent]
  <2>1. RemoveDir(t, p).t = u BY <1>2 DEF RemoveDir, Ok
  <2>2. ASSUME NEW q \in Universe, u[q].k # "none" PROVE IsDirAt(u, Parent(q))
    <3>0. q # p BY <2>2 DEF TreeType, Absent
    <3>1. t[q].k # "none" BY <2>2, <3>0 DEF TreeType
    <3>2. IsDirAt(t, Parent(q)) BY <3>1 DEF WellFormed
    <3>3. Parent(q) # p BY <3>1, <1>2 DEF Children
    <3> QED BY <3>2, <3>3 DEF IsDirAt, Kind, TreeType
  <2> QED BY <2>1, <2>2 DEF WellFormed
<1> QED BY <1>1, <1>2

THEOREM RemoveDirAllWF ==
  ASSUME UniverseOK, NEW t, TreeType(t), WellFormed(t), NEW p \in Universe
  PROVE  WellFormed(RemoveDirAll(t, p).t)
<1>1. CASE t[p].k # "dir" BY <1>1 DEF RemoveDirAll, Ok, InvAny
<1>2. CASE t[p].k = "dir"
  <2> DEFINE u == [q \in Universe |-> IF IsPrefix(p, q) THEN Absent ELSE t[q]]
  <2>1. RemoveDirAll(t, p).t = u BY <1>2 DEF RemoveDirAll, Ok
  <2>2. ASSUME NEW q \in Universe, u[q].k # "none" PROVE IsDirAt(u, Parent(q))
    <3>0. ~IsPrefix(p, q) BY <2>2 DEF Absent
    <3>1. t[q].k # "none" BY <2>2, <3>0
    <3>2. IsDirAt(t, Parent(q)) BY <3>1 DEF WellFormed
    <3>3. ~IsPrefix(p, Parent(q)) BY <3>0, PrefixOfParent DEF UniverseOK
    <3> QED BY <3>2, <3>3 DEF IsDirAt, Kind
  <2> QED BY <2>1, <2>2 DEF WellFormed
<1> QED BY <1>1, <1>2

PrefixClosedAll == \A p \in Universe : Prefixes(p) \subseteq Universe

LEMMA ParentOfPrefix ==
  ASSUME NEW S, NEW p \in Seq(S), NEW q \in Prefixes(p)
  PROVE  q \in Seq(S) /\ q # <<>> /\ (Parent(q) = <<>> \/ Parent(q) \in Prefixes(p))
<1>1. PICK i \in 1..Len(p) : q = SubSeq(p, 1, i) BY DEF Prefixes
<1>2. q \in Seq(S) /\ Len(q) = i BY <1>1
<1>3. CASE i = 1 BY <1>1, <1>2, <1>3 DEF Parent
<1>4. CASE i > 1
  <2>1. Parent(q) = SubSeq(p, 1, i - 1) BY <1>1, <1>2, <1>4 DEF Parent
  <2> QED BY <2>1, <1>4, <1>2 DEF Prefixes
<1> QED BY <1>2, <1>3, <1>4

THEOREM CreateDirAllWF ==
  ASSUME UniverseOK, PrefixClosedAll, NEW t, TreeType(t), WellFormed(t), NEW p \in Universe
  PROVE  WellFormed(CreateDirAll(t, p).t)
<1>1. CASE \E q \in Prefixes(p) : t[q].k = "file" BY <1>1 DEF CreateDirAll, InvErr
<1>2. CASE ~\E q \in Prefixes(p) : t[q].k = "file"
  <2> DEFINE u == [q \in Universe |-> IF q \in Prefixes(p) THEN Dir ELSE t[q]]
  <2>1. CreateDirAll(t, p).t = u BY <1>2 DEF CreateDirAll, Ok
  <2>2. ASSUME NEW q \in Universe, u[q].k # "none" PROVE IsDirAt(u, Parent(q))
    <3>1. CASE q \in Prefixes(p)
      <4>1. Parent(q) = <<>> \/ Parent(q) \in Prefixes(p) BY <3>1, ParentOfPrefix DEF UniverseOK
      <4>2. Prefixes(p) \subseteq Universe BY DEF PrefixClosedAll
      <4> QED BY <4>1, <4>2 DEF IsDirAt, Kind, Root, Dir
    <3>2. CASE q \notin Prefixes(p)
      <4>1. t[q].k # "none" BY <2>2, <3>2
      <4>2. IsDirAt(t, Parent(q)) BY <4>1 DEF WellFormed
      <4> QED BY <4>2 DEF IsDirAt, Kind, Dir
    <3> QED BY <3>1, <3>2
  <2> QED BY <2>1, <2>2 DEF WellFormed
<1> QED BY <1>1, <1>2

THEOREM CopyFileWF ==
  ASSUME UniverseOK, NEW t, TreeType(t), WellFormed(t), NEW s \in Universe, NEW d \in Universe
  PROVE  WellFormed(CopyFile(t, s, d).t)
<1>1. CASE ~(t[s].k = "file" /\ t[d].k = "none" /\ IsDirAt(t, Parent(d))) BY <1>1 DEF CopyFile, Ok, InvAny, InvErr, InvNF, SrcMissing, Fail, TreeType
<1>2. CASE t[s].k = "file" /\ t[d].k = "none" /\ IsDirAt(t, Parent(d))
  <2> DEFINE u == [t EXCEPT ![d] = t[s]]
  <2>1. CopyFile(t, s, d).t = u BY <1>2 DEF CopyFile, Ok, SrcMissing
  <2>2. ASSUME NEW q \in Universe, u[q].k # "none" PROVE IsDirAt(u, Parent(q))
    <3>1. CASE q = d BY <1>2, <3>1, ParentNeq DEF IsDirAt, Kind, TreeType, Root, UniverseOK
    <3>2. CASE q # d
      <4>1. t[q].k # "none" BY <3>2, <2>2 DEF TreeType
      <4>2. IsDirAt(t, Parent(q)) BY <4>1 DEF WellFormed
      <4>3. Parent(q) # d BY <4>2, <1>2 DEF IsDirAt, Kind, Root, UniverseOK
      <4> QED BY <4>2, <4>3 DEF IsDirAt, Kind, TreeType
    <3> QED BY <3>1, <3>2
  <2> QED BY <2>1, <2>2 DEF WellFormed
<1> QED BY <1>1, <1>2

THEOREM MoveFileWF ==
  ASSUME UniverseOK, NEW t, TreeType(t), WellFormed(t), NEW s \in Universe, NEW d \in Universe
  PROVE  WellFormed(MoveFile(t, s, d).t)
<1>1. CASE ~(t[s].k = "file" /\ t[d].k = "none" /\ IsDirAt(t, Parent(d))) BY <1>1 DEF MoveFile, Ok, InvAny, InvErr, InvNF, SrcMissing, Fail, TreeType
<1>2. CASE t[s].k = "file" /\ t[d].k = "none" /\ IsDirAt(t, Parent(d))
  <2> DEFINE u == [t EXCEPT ![d] = t[s], ![s] = Absent]
  <2>0. s # d BY <1>2
  <2>1. MoveFile(t, s, d).t = u BY <1>2 DEF MoveFile, Ok, SrcMissing
  <2>2. ASSUME NEW q \in Universe, u[q].k # "none" PROVE IsDirAt(u, Parent(q))
    <3>0. q # s BY <2>2 DEF TreeType, Absent
    <3>1. CASE q = d
      <4>1. Parent(d) # d BY ParentNeq DEF UniverseOK
      <4>2. Parent(d) # s BY <1>2 DEF IsDirAt, Kind, Root, UniverseOK
      <4> QED BY <1>2, <3>1, <4>1, <4>2 DEF IsDirAt, Kind, TreeType, Root
    <3>2. CASE q # d
      <4>1. t[q].k # "none" BY <3>2, <3>0, <2>2 DEF TreeType
      <4>2. IsDirAt(t, Parent(q)) BY <4>1 DEF WellFormed
      <4>3. Parent(q) # d /\ Parent(q) # s BY <4>2, <1>2 DEF IsDirAt, Kind, Root, UniverseOK
      <4> QED BY <4>2, <4>3 DEF IsDirAt, Kind, TreeType
    <3> QED BY <3>1, <3>2
  <2> QED BY <2>1, <2>2 DEF WellFormed
<1> QED BY <1>1, <1>2

LEMMA BelowParent ==   \* the parent of an entry strictly below d is d itself or strictly below d
  ASSUME NEW S, NEW d \in Seq(S), NEW q \in Seq(S), StrictPrefix(d, q)
  PROVE  q # <<>> /\ (Parent(q) = d \/ StrictPrefix(d, Parent(q)))
<1>1. q # <<>> /\ IsPrefix(d, Parent(q)) BY StrictPrefixParent
<1>2. Parent(q) \in Seq(S) BY <1>1, ParentLen
<1>3. CASE Len(d) = Len(Parent(q))
  <2>1. SubSeq(Parent(q), 1, Len(Parent(q))) = Parent(q) BY <1>2
  <2> QED BY <1>1, <1>3, <2>1 DEF IsPrefix
<1>4. CASE Len(d) # Len(Parent(q)) BY <1>1, <1>4 DEF IsPrefix, StrictPrefix
<1> QED BY <1>1, <1>3, <1>4

LEMMA NotBelowParent ==
  ASSUME NEW S, NEW d \in Seq(S), NEW q \in Seq(S), q # <<>>, ~StrictPrefix(d, q)
  PROVE  ~StrictPrefix(d, Parent(q))
  BY ParentLen DEF StrictPrefix, Parent

THEOREM CopyDirWF ==
  ASSUME UniverseOK, NEW t, TreeType(t), WellFormed(t), NEW s \in Universe, NEW d \in Universe
  PROVE  WellFormed(CopyDir(t, s, d).t)
<1>1. CASE ~(t[s].k = "dir" /\ t[d].k = "none" /\ IsDirAt(t, Parent(d))) BY <1>1 DEF CopyDir, Ok, OkVal, InvAny, InvErr, InvNF, SrcMissing, Fail, TreeType
<1>2. CASE t[s].k = "dir" /\ t[d].k = "none" /\ IsDirAt(t, Parent(d))
  <2> DEFINE u == [q \in Universe |-> IF q = d THEN Dir ELSE IF StrictPrefix(d, q) THEN Copied(t, s, d, q) ELSE t[q]]
  <2>1. CopyDir(t, s, d).t = u BY <1>2 DEF CopyDir, OkVal, SrcMissing
  <2>2. ASSUME NEW q \in Universe, u[q].k # "none" PROVE IsDirAt(u, Parent(q))
    <3>a. q \in Seq(N) /\ d \in Seq(N) /\ s \in Seq(N) /\ q # <<>> /\ d # <<>> BY DEF UniverseOK
    <3>1. CASE q = d
      <4>1. Parent(d) # d BY <3>a, ParentNeq
      <4>2. ~StrictPrefix(d, Parent(d))
        <5>1. ~StrictPrefix(d, d) BY <3>a DEF StrictPrefix
        <5> QED BY <5>1, <3>a, NotBelowParent
      <4> QED BY <1>2, <3>1, <4>1, <4>2 DEF IsDirAt, Kind, Root
    <3>2. CASE q # d /\ StrictPrefix(d, q)
      <4> DEFINE o == ReRoot(q, d, s)
      <4>1. o \in Universe /\ t[o].k # "none" BY <2>2, <3>2 DEF Copied, Absent
      <4>2. IsDirAt(t, Parent(o)) BY <4>1 DEF WellFormed
      <4>3. Parent(q) = d \/ StrictPrefix(d, Parent(q)) BY <3>a, <3>2, BelowParent
      <4>4. CASE Parent(q) = d BY <4>4 DEF IsDirAt, Kind, Dir
      <4>5. CASE Parent(q) # d /\ StrictPrefix(d, Parent(q))
        <5>1. ReRoot(Parent(q), d, s) = Parent(o) /\ Parent(o) # <<>> BY <3>a, <4>5, ReRootParent
        <5>2. Parent(o) \in Universe /\ t[Parent(o)].k = "dir" BY <4>2, <5>1, KindDir DEF Root
        <5>3. Parent(q) \in Universe BY <4>5, <3>a DEF UniverseOK, StrictPrefix
        <5>4. u[Parent(q)] = t[Parent(o)] BY <5>1, <5>2, <5>3, <4>5 DEF Copied
        <5> QED BY <5>2, <5>3, <5>4 DEF IsDirAt, Kind
      <4> QED BY <4>3, <4>4, <4>5
    <3>3. CASE q # d /\ ~StrictPrefix(d, q)
      <4>1. t[q].k # "none" BY <2>2, <3>3
      <4>2. IsDirAt(t, Parent(q)) BY <4>1 DEF WellFormed
      <4>3. Parent(q) # d BY <4>2, <1>2, <3>a DEF IsDirAt, Kind, Root
      <4>4. ~StrictPrefix(d, Parent(q)) BY <3>a, <3>3, NotBelowParent
      <4> QED BY <4>2, <4>3, <4>4 DEF IsDirAt, Kind
    <3> QED BY <3>1, <3>2, <3>3
  <2> QED BY <2>1, <2>2 DEF WellFormed
<1> QED BY <1>1, <1>2

THEOREM MoveDirWF ==
  ASSUME UniverseOK, NEW t, TreeType(t), WellFormed(t), NEW s \in Universe, NEW d \in Universe, ~IsPrefix(s, d)
  PROVE  WellFormed(MoveDir(t, s, d).t)
<1>1. CASE ~(t[s].k = "dir" /\ t[d].k = "none" /\ IsDirAt(t, Parent(d))) BY <1>1 DEF MoveDir, Ok, InvAny, InvErr, InvNF, SrcMissing, Fail, TreeType
<1>2. CASE t[s].k = "dir" /\ t[d].k = "none" /\ IsDirAt(t, Parent(d))
  <2> DEFINE u == [q \in Universe |-> IF q = d THEN Dir ELSE IF StrictPrefix(d, q) THEN Copied(t, s, d, q)
                                      ELSE IF IsPrefix(s, q) THEN Absent ELSE t[q]]
  <2>1. MoveDir(t, s, d).t = u BY <1>2 DEF MoveDir, Ok, SrcMissing
  <2>2. ASSUME NEW q \in Universe, u[q].k # "none" PROVE IsDirAt(u, Parent(q))
    <3>a. q \in Seq(N) /\ d \in Seq(N) /\ s \in Seq(N) /\ q # <<>> /\ d # <<>> BY DEF UniverseOK
    <3>1. CASE q = d
      <4>1. Parent(d) # d BY <3>a, ParentNeq
      <4>2. ~StrictPrefix(d, Parent(d))
        <5>1. ~StrictPrefix(d, d) BY <3>a DEF StrictPrefix
        <5> QED BY <5>1, <3>a, NotBelowParent
      <4>3. ~IsPrefix(s, Parent(d)) BY <3>a, PrefixOfParent
      <4> QED BY <1>2, <3>1, <4>1, <4>2, <4>3 DEF IsDirAt, Kind, Root
    <3>2. CASE q # d /\ StrictPrefix(d, q)
      <4> DEFINE o == ReRoot(q, d, s)
      <4>1. o \in Universe /\ t[o].k # "none" BY <2>2, <3>2 DEF Copied, Absent
      <4>2. IsDirAt(t, Parent(o)) BY <4>1 DEF WellFormed
      <4>3. Parent(q) = d \/ StrictPrefix(d, Parent(q)) BY <3>a, <3>2, BelowParent
      <4>4. CASE Parent(q) = d BY <4>4 DEF IsDirAt, Kind, Dir
      <4>5. CASE Parent(q) # d /\ StrictPrefix(d, Parent(q))
        <5>1. ReRoot(Parent(q), d, s) = Parent(o) /\ Parent(o) # <<>> BY <3>a, <4>5, ReRootParent
        <5>2. Parent(o) \in Universe /\ t[Parent(o)].k = "dir" BY <4>2, <5>1, KindDir DEF Root
        <5>3. Parent(q) \in Universe BY <4>5, <3>a DEF UniverseOK, StrictPrefix
        <5>4. u[Parent(q)] = t[Parent(o)] BY <5>1, <5>2, <5>3, <4>5 DEF Copied
        <5> QED BY <5>2, <5>3, <5>4 DEF IsDirAt, Kind
      <4> QED BY <4>3, <4>4, <4>5
    <3>3. CASE q # d /\ ~StrictPrefix(d, q)
      <4>0. ~IsPrefix(s, q) BY <2>2, <3>3 DEF Absent
      <4>1. t[q].k # "none" BY <2>2, <3>3, <4>0
      <4>2. IsDirAt(t, Parent(q)) BY <4>1 DEF WellFormed
      <4>3. Parent(q) # d BY <4>2, <1>2, <3>a DEF IsDirAt, Kind, Root
      <4>4. ~StrictPrefix(d, Parent(q)) BY <3>a, <3>3, NotBelowParent
      <4>5. ~IsPrefix(s, Parent(q)) BY <3>a, <4>0, PrefixOfParent
      <4> QED BY <4>2, <4>3, <4>4, <4>5 DEF IsDirAt, Kind
    <3> QED BY <3>1, <3>2, <3>3
  <2> QED BY <2>1, <2>2 DEF WellFormed
<1> QED BY <1>1, <1>2

LEMMA SetTimeSame == ASSUME NEW t, NEW p, NEW f, NEW sup PROVE SetTime(t, p, f, sup).t = t
  BY DEF SetTime, Fail, Ok

\* C03 on the contract, any universe: no operation of the dispatcher can produce an orphan
THEOREM ApplyWF ==
  ASSUME UniverseOK, PrefixClosedAll, NEW t, TreeType(t), WellFormed(t), NEW cfg, ~cfg.ro,
         NEW e, e.p \in Universe, e.q \in Universe, e.c \in Seq(Nat),
         e.op = "move_dir" => ~IsPrefix(e.p, e.q)
  PROVE  WellFormed(Apply(e, t, cfg).t)
<1>1. CASE e.op = "create_dir" BY <1>1, CreateDirWF DEF Apply
<1>2. CASE e.op = "create_file" BY <1>2, CreateFileWF DEF Apply
<1>3. CASE e.op = "append_file" BY <1>3, AppendFileWF DEF Apply
<1>4. CASE e.op = "remove_file" BY <1>4, RemoveFileWF DEF Apply
<1>5. CASE e.op = "remove_dir" BY <1>5, RemoveDirWF DEF Apply
<1>6. CASE e.op = "set_time" BY <1>6, SetTimeSame DEF Apply
<1>7. CASE e.op = "create_dir_all" BY <1>7, CreateDirAllWF DEF Apply
<1>8. CASE e.op = "remove_dir_all" BY <1>8, RemoveDirAllWF DEF Apply
<1>9. CASE e.op = "copy_file" BY <1>9, CopyFileWF DEF Apply
<1>10. CASE e.op = "move_file" BY <1>10, MoveFileWF DEF Apply
<1>11. CASE e.op = "copy_dir" BY <1>11, CopyDirWF DEF Apply
<1>12. CASE e.op = "move_dir" BY <1>12, MoveDirWF DEF Apply
<1>13. CASE e.op \notin Mutators BY <1>13 DEF Apply, Mutators, Unspec
<1> QED BY <1>1, <1>2, <1>3, <1>4, <1>5, <1>6, <1>7, <1>8, <1>9, <1>10, <1>11, <1>12, <1>13 DEF Mutators

\* C01 frame on the contract, any universe
THEOREM FramePrimitives ==
  ASSUME NEW t, TreeType(t), NEW p \in Universe, NEW c, NEW x \in Universe, x # p
  PROVE  /\ CreateDir(t, p).t[x] = t[x]
         /\ CreateFile(t, p, c).t[x] = t[x]
         /\ AppendFile(t, p, c).t[x] = t[x]
         /\ RemoveFile(t, p).t[x] = t[x]
         /\ RemoveDir(t, p).t[x] = t[x]
  BY DEF CreateDir, CreateFile, AppendFile, RemoveFile, RemoveDir, Ok, Fail, TreeType

THEOREM FrameComposites ==
  ASSUME UniverseOK, NEW t, TreeType(t), NEW p \in Universe, NEW q \in Universe, NEW x \in Universe
  PROVE  /\ x \notin Prefixes(p) => CreateDirAll(t, p).t[x] = t[x]
         /\ ~IsPrefix(p, x) => RemoveDirAll(t, p).t[x] = t[x]
         /\ ~IsPrefix(q, x) => CopyFile(t, p, q).t[x] = t[x] /\ CopyDir(t, p, q).t[x] = t[x]
         /\ (~IsPrefix(q, x) /\ ~IsPrefix(p, x)) => MoveFile(t, p, q).t[x] = t[x] /\ MoveDir(t, p, q).t[x] = t[x]
<1>1. x \notin Prefixes(p) => CreateDirAll(t, p).t[x] = t[x] BY DEF CreateDirAll, Ok, InvErr
<1>2. ~IsPrefix(p, x) => RemoveDirAll(t, p).t[x] = t[x] BY DEF RemoveDirAll, Ok, InvAny
<1>3. ASSUME ~IsPrefix(q, x) PROVE CopyFile(t, p, q).t[x] = t[x] /\ CopyDir(t, p, q).t[x] = t[x]
  <2>1. x # q /\ ~StrictPrefix(q, x) BY <1>3, PrefixRefl, StrictIsPrefix DEF UniverseOK
  <2> QED BY <2>1 DEF CopyFile, CopyDir, Ok, OkVal, Fail, InvAny, InvErr, InvNF, SrcMissing, TreeType
<1>4. ASSUME ~IsPrefix(q, x), ~IsPrefix(p, x) PROVE MoveFile(t, p, q).t[x] = t[x] /\ MoveDir(t, p, q).t[x] = t[x]
  <2>1. x # q /\ ~StrictPrefix(q, x) /\ x # p BY <1>4, PrefixRefl, StrictIsPrefix DEF UniverseOK
  <2> QED BY <2>1, <1>4 DEF MoveFile, MoveDir, Ok, Fail, InvAny, InvErr, InvNF, SrcMissing, TreeType
<1> QED BY <1>1, <1>2, <1>3, <1>4

\* a specified failure changes nothing
THEOREM FailUnchanged ==
  ASSUME NEW cls, NEW t PROVE Fail(cls, t).t = t /\ InvErr(t).t = t
  BY DEF Fail, InvErr
=============================================================================
