--------------------------- MODULE OverlayProofs ---------------------------
(***************************************************************************)
(* Unbounded part of C03/C09 on the overlay algorithm (Level B, module     *)
(* Overlay): for ANY universe closed under Parent, ANY number and content  *)
(* of layers (well-formed or not, with type conflicts) and ANY marker set, *)
(* the tree a user of the overlay sees is well-formed: no entry is visible *)
(* below a removed path or below a file.  TLC checks the same statement    *)
(* (ViewWellFormed) for the bounded instances MC_Overlay_q / MC_Overlay_3. *)
(***************************************************************************)
EXTENDS OverlayOps, PathLemmas, NaturalsInduction

CONSTANT N
UniverseOK == /\ Universe \subseteq Seq(N)
              /\ <<>> \notin Universe
              /\ \A p \in Universe : Parent(p) = <<>> \/ Parent(p) \in Universe

LEMMA ParentIsStrictAncestor ==
  ASSUME NEW S, NEW p \in Seq(S), Len(p) > 1
  PROVE  Parent(p) \in StrictAncestors(p)
  BY DEF Parent, StrictAncestors

LEMMA AncestorsOfParent ==
  ASSUME NEW S, NEW p \in Seq(S), p # <<>>
  PROVE  StrictAncestors(Parent(p)) \subseteq StrictAncestors(p)
<1>1. Len(Parent(p)) = Len(p) - 1 /\ Parent(p) = SubSeq(p, 1, Len(p) - 1) BY DEF Parent
<1>2. ASSUME NEW i \in 1..(Len(Parent(p)) - 1) PROVE SubSeq(Parent(p), 1, i) = SubSeq(p, 1, i)
  <2>1. SubSeq(Parent(p), 1, i) \in Seq(S) /\ Len(SubSeq(Parent(p), 1, i)) = i BY <1>1
  <2>2. SubSeq(p, 1, i) \in Seq(S) /\ Len(SubSeq(p, 1, i)) = i BY <1>1
  <2>3. \A j \in 1..i : SubSeq(Parent(p), 1, i)[j] = SubSeq(p, 1, i)[j] BY <1>1
  <2> QED BY <2>1, <2>2, <2>3, SeqEqual
<1> QED BY <1>1, <1>2 DEF StrictAncestors

THEOREM ViewWellFormedAlways ==
  ASSUME UniverseOK, NEW ls, NEW wo
  PROVE  WellFormed(View(ls, wo))
<1> DEFINE v == View(ls, wo)
<1>1. ASSUME NEW p \in Universe, v[p].k # "none" PROVE IsDirAt(v, Parent(p))
  <2>a. p \in Seq(N) /\ p # <<>> BY DEF UniverseOK
  <2>0. v[p] = ReadPath(ls, wo, p) BY DEF View
  <2>1. p # Root BY <2>a DEF Root
  <2>2. ~(\E a \in StrictAncestors(p) : Lookup(ls, wo, a).k # "dir") BY <1>1, <2>0, <2>1 DEF ReadPath, Absent
  <2>3. CASE Parent(p) = Root BY <2>3 DEF IsDirAt, Kind
  <2>4. CASE Parent(p) # Root
    <3>1. Parent(p) \in Universe BY <2>4 DEF UniverseOK, Root
    <3>2. Len(p) > 1 BY <2>4, <2>a DEF Parent, Root
    <3>3. Parent(p) \in StrictAncestors(p) BY <3>2, <2>a, ParentIsStrictAncestor
    <3>4. Lookup(ls, wo, Parent(p)).k = "dir" BY <2>2, <3>3
    <3>5. StrictAncestors(Parent(p)) \subseteq StrictAncestors(p) BY <2>a, AncestorsOfParent
    <3>6. ReadPath(ls, wo, Parent(p)) = Lookup(ls, wo, Parent(p)) BY <2>2, <3>5, <2>4 DEF ReadPath
    <3>7. v[Parent(p)] = ReadPath(ls, wo, Parent(p)) BY <3>1 DEF View
    <3> QED BY <3>1, <3>4, <3>6, <3>7, <2>4 DEF IsDirAt, Kind
  <2> QED BY <2>3, <2>4
<1> QED BY <1>1 DEF WellFormed

LayersType(ls) == /\ ls \in Seq([Universe -> [k : {"none", "dir", "file"}, d : Seq(Nat)]])
                  /\ Len(ls) >= 1

\* C10 on the algorithm, any universe / layers / markers: a successful remove_file or remove_dir makes
\* the path invisible, whatever the lower layers hold at it
THEOREM RemoveFileHides ==
  ASSUME UniverseOK, NEW ls, LayersType(ls), NEW wo, NEW p \in Universe,
         ORemoveFile(ls, wo, p).c = "ok"
  PROVE  LET r == ORemoveFile(ls, wo, p) IN ReadPath([ls EXCEPT ![1] = r.up], r.wo, p) = Absent
<1> DEFINE r == ORemoveFile(ls, wo, p)
<1> DEFINE ls2 == [ls EXCEPT ![1] = r.up]
<1>0. p # Root BY DEF UniverseOK, Root
<1>1. p \in r.wo /\ ~HasIn(r.up, p)
  <2>1. CASE HasIn(ls[1], p)
    <3>1. "ok" \in RemoveFile(ls[1], p).allowed BY <2>1 DEF ORemoveFile, Res
    <3>2. ls[1][p].k = "file" BY <3>1 DEF RemoveFile, Ok, Fail, Missing, AnyErr, NF, ErrClasses
    <3>3. r.up = [ls[1] EXCEPT ![p] = Absent] /\ r.wo = wo \cup {p} BY <2>1, <3>1, <3>2 DEF ORemoveFile, Res, RemoveFile, Ok
    <3> QED BY <3>3 DEF HasIn, Absent, LayersType
  <2>2. CASE ~HasIn(ls[1], p) BY <2>2 DEF ORemoveFile, Res
  <2> QED BY <2>1, <2>2
<1>2. ls2[1] = r.up BY DEF LayersType
<1>3. Lookup(ls2, r.wo, p) = Absent BY <1>1, <1>2 DEF Lookup
<1> QED BY <1>0, <1>3 DEF ReadPath, Absent

THEOREM RemoveDirHides ==
  ASSUME UniverseOK, NEW ls, LayersType(ls), NEW wo, NEW p \in Universe,
         ORemoveDir(ls, wo, p).c = "ok"
  PROVE  LET r == ORemoveDir(ls, wo, p) IN ReadPath([ls EXCEPT ![1] = r.up], r.wo, p) = Absent
<1> DEFINE r == ORemoveDir(ls, wo, p)
<1> DEFINE ls2 == [ls EXCEPT ![1] = r.up]
<1>0. p # Root BY DEF UniverseOK, Root
<1>1. p \in r.wo /\ ~HasIn(r.up, p)
  <2>1. CASE HasIn(ls[1], p)
    <3>1. "ok" \in RemoveDir(ls[1], p).allowed BY <2>1 DEF ORemoveDir, Res
    <3>2. ls[1][p].k = "dir" /\ Children(ls[1], p) = {} BY <3>1 DEF RemoveDir, Ok, Fail, Missing, AnyErr, NF, ErrClasses
    <3>3. r.up = [ls[1] EXCEPT ![p] = Absent] /\ r.wo = wo \cup {p} BY <2>1, <3>1, <3>2 DEF ORemoveDir, Res, RemoveDir, Ok
    <3> QED BY <3>3 DEF HasIn, Absent, LayersType
  <2>2. CASE ~HasIn(ls[1], p) BY <2>2 DEF ORemoveDir, Res
  <2> QED BY <2>1, <2>2
<1>2. ls2[1] = r.up BY DEF LayersType
<1>3. Lookup(ls2, r.wo, p) = Absent BY <1>1, <1>2 DEF Lookup
<1> QED BY <1>0, <1>3 DEF ReadPath, Absent

\* ... and so is everything below it (no entry is visible below an invisible path)
THEOREM NothingBelowInvisible ==
  ASSUME UniverseOK, NEW ls, NEW wo, NEW p \in Universe, NEW q \in Universe,
         ReadPath(ls, wo, p).k # "dir", p \in StrictAncestors(q)
  PROVE  ReadPath(ls, wo, q) = Absent
<1>a. p \in Seq(N) /\ p # <<>> /\ q # Root BY DEF UniverseOK, Root
<1>1. CASE Lookup(ls, wo, p).k # "dir" BY <1>1, <1>a DEF ReadPath
<1>2. CASE Lookup(ls, wo, p).k = "dir"
  <2>1. \E a \in StrictAncestors(p) : Lookup(ls, wo, a).k # "dir" BY <1>2, <1>a DEF ReadPath, Absent, Root
  <2>2. PICK i \in 1..(Len(q) - 1) : p = SubSeq(q, 1, i) BY DEF StrictAncestors
  <2>3. q \in Seq(N) BY DEF UniverseOK
  <2>4. Len(p) = i BY <2>2, <2>3
  <2>5. ASSUME NEW j \in 1..(Len(p) - 1) PROVE SubSeq(p, 1, j) = SubSeq(q, 1, j)
    <3>1. SubSeq(p, 1, j) \in Seq(N) /\ Len(SubSeq(p, 1, j)) = j BY <1>a
    <3>2. SubSeq(q, 1, j) \in Seq(N) /\ Len(SubSeq(q, 1, j)) = j BY <2>3, <2>4
    <3>3. \A m \in 1..j : SubSeq(p, 1, j)[m] = SubSeq(q, 1, j)[m] BY <2>2, <2>3, <2>4
    <3> QED BY <3>1, <3>2, <3>3, SeqEqual
  <2>6. StrictAncestors(p) \subseteq StrictAncestors(q)
    <3>1. ASSUME NEW x \in StrictAncestors(p) PROVE x \in StrictAncestors(q)
      <4>1. PICK j \in 1..(Len(p) - 1) : x = SubSeq(p, 1, j) BY DEF StrictAncestors
      <4>2. j \in 1..(Len(q) - 1) BY <2>4, <2>3, <2>2
      <4>3. x = SubSeq(q, 1, j) BY <4>1, <2>5
      <4> QED BY <4>2, <4>3 DEF StrictAncestors
    <3> QED BY <3>1
  <2> QED BY <2>1, <2>6, <1>a DEF ReadPath
<1> QED BY <1>1, <1>2

\* ---- the first layer that has a path (CHOOSE of a minimum) is well defined
LEMMA MinExists ==
  \A n \in Nat : \A S \in SUBSET (1..n) : S # {} => \E i \in S : \A j \in S : i <= j
<1> DEFINE P(n) == \A S \in SUBSET (1..n) : S # {} => \E i \in S : \A j \in S : i <= j
<1>1. P(0) OBVIOUS
<1>2. ASSUME NEW n \in Nat, P(n) PROVE P(n + 1)
  <2>1. ASSUME NEW S \in SUBSET (1..(n + 1)), S # {} PROVE \E i \in S : \A j \in S : i <= j
    <3> DEFINE T == S \ {n + 1}
    <3>1. CASE T = {} BY <3>1, <2>1
    <3>2. CASE T # {}
      <4>1. T \in SUBSET (1..n) OBVIOUS
      <4>2. PICK m \in T : \A j \in T : m <= j BY <4>1, <3>2, <1>2
      <4> QED BY <4>2
    <3> QED BY <3>1, <3>2
  <2> QED BY <2>1
<1>3. \A n \in Nat : P(n) BY <1>1, <1>2, NatInduction, Isa
<1> QED BY <1>3

LEMMA FirstLayerProps ==
  ASSUME NEW ls, NEW n \in Nat, DOMAIN ls = 1..n, NEW p, \E i \in DOMAIN ls : HasIn(ls[i], p)
  PROVE  /\ FirstLayer(ls, p) \in DOMAIN ls
         /\ HasIn(ls[FirstLayer(ls, p)], p)
         /\ \A j \in DOMAIN ls : HasIn(ls[j], p) => FirstLayer(ls, p) <= j
<1> DEFINE S == {i \in DOMAIN ls : HasIn(ls[i], p)}
<1>1. S \in SUBSET (1..n) /\ S # {} OBVIOUS
<1>2. \E i \in S : \A j \in S : i <= j BY <1>1, MinExists
<1>3. FirstLayer(ls, p) = CHOOSE i \in S : \A j \in S : i <= j BY <1>1 DEF FirstLayer
<1>4. FirstLayer(ls, p) \in S /\ \A j \in S : FirstLayer(ls, p) <= j BY <1>2, <1>3
<1> QED BY <1>4

LEMMA ParentOfPrefixO ==
  ASSUME NEW S, NEW p \in Seq(S), NEW q \in Prefixes(p)
  PROVE  q \in Seq(S) /\ q # <<>> /\ (Parent(q) = <<>> \/ Parent(q) \in Prefixes(p))
<1>1. PICK i \in 1..Len(p) : q = SubSeq(p, 1, i) BY DEF Prefixes
<1>2. q \in Seq(S) /\ Len(q) = i BY <1>1
<1>3. CASE i = 1 BY <1>1, <1>2, <1>3 DEF Parent
<1>4. CASE i > 1
  <2>1. Parent(q) = SubSeq(p, 1, i - 1) BY <1>1, <1>2, <1>4 DEF Parent
  <2> QED BY <2>1, <1>4, <1>2 DEF Prefixes
<1> QED BY <1>2, <1>3, <1>4

PrefixClosedAll == \A p \in Universe : Prefixes(p) \subseteq Universe

\* ---- C10: a re-created directory starts EMPTY, whatever the lower layers hold below it
LayersOK(ls) == /\ LayersType(ls)
                /\ \A i \in DOMAIN ls : WellFormed(ls[i])

LEMMA KidNotPrefixOfParent ==
  ASSUME NEW S, NEW p \in Seq(S), NEW q \in Seq(S), p # <<>>, q # <<>>, Parent(q) = p
  PROVE  q \notin Prefixes(Parent(p)) /\ q # p
<1>1. Len(q) = Len(p) + 1 BY DEF Parent
<1>2. Len(Parent(p)) = Len(p) - 1 BY DEF Parent
<1>3. \A x \in Prefixes(Parent(p)) : Len(x) <= Len(p) - 1 BY <1>2 DEF Prefixes
<1> QED BY <1>1, <1>3

THEOREM FreshAfterRecreate ==
  ASSUME UniverseOK, PrefixClosedAll, NEW ls, LayersOK(ls), NEW wo, NEW p \in Universe,
         OCreateDir(ls, wo, p).c = "ok"
  PROVE  LET r == OCreateDir(ls, wo, p) IN ListedKids([ls EXCEPT ![1] = r.up], r.wo, p) = {}
<1> DEFINE e == EnsureParent(ls, wo, p)
<1> DEFINE ls2 == [ls EXCEPT ![1] = e.t]
<1> DEFINE cur == ReadPath(ls2, wo, p)
<1> DEFINE wo2 == IF p \in wo
                  THEN wo \cup {q \in Universe : Parent(q) = p /\ \E i \in DOMAIN ls : i > 1 /\ IsDirIn(ls[i], p) /\ HasIn(ls[i], q)}
                  ELSE wo
<1> DEFINE r == OCreateDir(ls, wo, p)
<1> DEFINE ls3 == [ls EXCEPT ![1] = r.up]
<1>a. p \in Seq(N) /\ p # <<>> /\ p # Root BY DEF UniverseOK, Root
<1>b. DOMAIN ls = 1..Len(ls) /\ Len(ls) \in Nat /\ 1 \in DOMAIN ls BY DEF LayersOK, LayersType
<1>0. GetParentOK(ls, wo, p) /\ e.ok
  <2>1. GetParentOK(ls, wo, p) BY DEF OCreateDir, Res
  <2>2. e.ok BY <2>1 DEF OCreateDir, Res
  <2> QED BY <2>1, <2>2
<1>3. e.t \in [Universe -> [k : {"none", "dir", "file"}, d : Seq(Nat)]] /\ WellFormed(e.t)
      /\ \A q \in Universe : q \notin Prefixes(Parent(p)) => e.t[q] = ls[1][q]
  <2>0. ls[1] \in [Universe -> [k : {"none", "dir", "file"}, d : Seq(Nat)]] /\ WellFormed(ls[1]) BY <1>b DEF LayersOK, LayersType
  <2>1. CASE Parent(p) = Root BY <2>1, <1>0, <2>0 DEF EnsureParent, UpperCreateDirAll, GetParentOK
  <2>2. CASE Parent(p) # Root
    <3>1. Parent(p) \in Universe BY <2>2 DEF UniverseOK, Root
    <3>2. e = [ok |-> "ok" \in CreateDirAll(ls[1], Parent(p)).allowed, t |-> CreateDirAll(ls[1], Parent(p)).t]
      BY <2>2, <1>0 DEF EnsureParent, UpperCreateDirAll, GetParentOK
    <3>3. ~(\E x \in Prefixes(Parent(p)) : ls[1][x].k = "file") BY <3>2, <1>0 DEF CreateDirAll, InvErr, AnyErr, ErrClasses
    <3>4. e.t = [x \in Universe |-> IF x \in Prefixes(Parent(p)) THEN Dir ELSE ls[1][x]] BY <3>2, <3>3 DEF CreateDirAll, Ok
    <3>5. e.t \in [Universe -> [k : {"none", "dir", "file"}, d : Seq(Nat)]] BY <3>4, <2>0 DEF Dir
    <3>6. ASSUME NEW x \in Universe, e.t[x].k # "none" PROVE IsDirAt(e.t, Parent(x))
      <4>1. CASE x \in Prefixes(Parent(p))
        <5>1. Parent(x) = <<>> \/ Parent(x) \in Prefixes(Parent(p)) BY <4>1, <3>1, ParentOfPrefixO DEF UniverseOK
        <5>2. Parent(x) = <<>> \/ Parent(x) \in Universe BY DEF UniverseOK
        <5> QED BY <5>1, <5>2, <3>4 DEF IsDirAt, Kind, Root, Dir
      <4>2. CASE x \notin Prefixes(Parent(p))
        <5>1. ls[1][x].k # "none" BY <3>6, <4>2, <3>4
        <5>2. IsDirAt(ls[1], Parent(x)) BY <5>1, <2>0 DEF WellFormed
        <5> QED BY <5>2, <3>4 DEF IsDirAt, Kind, Dir
      <4> QED BY <4>1, <4>2
    <3> QED BY <3>4, <3>5, <3>6 DEF WellFormed
  <2> QED BY <2>1, <2>2
<1>1. /\ GetParentOK(ls, wo, p) /\ e.ok /\ cur.k = "none" /\ "ok" \in CreateDir(e.t, p).allowed
      /\ r.up = CreateDir(e.t, p).t /\ r.wo = wo2 \ {p}
  <2>1. GetParentOK(ls, wo, p) BY DEF OCreateDir, Res
  <2>2. e.ok BY <2>1 DEF OCreateDir, Res
  <2>3. cur.k # "dir" /\ cur.k # "file" BY <2>1, <2>2 DEF OCreateDir, Res
  <2>4. r = IF "ok" \in CreateDir(e.t, p).allowed THEN Res("ok", CreateDir(e.t, p).t, wo2 \ {p}) ELSE Res("err", e.t, wo2)
    BY <2>1, <2>2, <2>3 DEF OCreateDir
  <2>5. "ok" \in CreateDir(e.t, p).allowed BY <2>4 DEF Res
  <2>6. cur.k = "none"
    <3>1. cur = Absent \/ cur = Lookup(ls2, wo, p) BY <1>a DEF ReadPath
    <3>2. Lookup(ls2, wo, p) = Absent \/ \E i \in DOMAIN ls2 : Lookup(ls2, wo, p) = ls2[i][p]
      <4>1. CASE \E i \in DOMAIN ls2 : HasIn(ls2[i], p)
        <5>1. DOMAIN ls2 = 1..Len(ls) BY <1>b
        <5>2. FirstLayer(ls2, p) \in DOMAIN ls2 /\ HasIn(ls2[FirstLayer(ls2, p)], p) BY <4>1, <5>1, <1>b, FirstLayerProps
        <5>3. FirstLayer(ls2, p) # 0 BY <5>2, <5>1
        <5> QED BY <5>2, <5>3 DEF Lookup
      <4>2. CASE ~\E i \in DOMAIN ls2 : HasIn(ls2[i], p) BY <4>2 DEF Lookup, FirstLayer
      <4> QED BY <4>1, <4>2
    <3>3. \A i \in DOMAIN ls2 : ls2[i][p].k \in {"none", "dir", "file"}
      <4>1. \A i \in DOMAIN ls : i # 1 => ls2[i] = ls[i] BY <1>b
      <4>2. ls2[1] = e.t BY <1>b
      <4>3. DOMAIN ls2 = DOMAIN ls BY <1>b
      <4> QED BY <4>1, <4>2, <4>3, <1>3 DEF LayersOK, LayersType
    <3> QED BY <3>1, <3>2, <3>3, <2>3 DEF Absent
  <2> QED BY <2>1, <2>2, <2>4, <2>5, <2>6 DEF Res
<1>2. e.t[p].k = "none" /\ r.up = [e.t EXCEPT ![p] = Dir]
  BY <1>1, <1>3 DEF CreateDir, Ok, Fail, AnyErr, ErrClasses
<1>4. ASSUME NEW q \in Universe, Parent(q) = p PROVE ~HasIn(r.up, q)
  <2>1. q # p BY <1>4, <1>a, ParentNeq DEF UniverseOK
  <2>2. r.up[q] = e.t[q] BY <1>2, <2>1, <1>3
  <2>3. e.t[q].k # "none" => IsDirAt(e.t, p) BY <1>3, <1>4 DEF WellFormed
  <2>4. ~IsDirAt(e.t, p) BY <1>2, <1>a DEF IsDirAt, Kind
  <2> QED BY <2>2, <2>3, <2>4 DEF HasIn
<1>5. ls3[1] = r.up /\ DOMAIN ls3 = DOMAIN ls /\ \A i \in DOMAIN ls : i > 1 => ls3[i] = ls[i] BY <1>b
<1>6. ASSUME NEW q \in Universe, Parent(q) = p,
             NEW i \in DOMAIN ls3, IsDirIn(ls3[i], p), HasIn(ls3[i], q)
      PROVE  q \in r.wo /\ ~HasIn(ls3[1], q)
  <2>1. ~HasIn(ls3[1], q) BY <1>4, <1>5, <1>6
  <2>2. i > 1 BY <2>1, <1>6, <1>5, <1>b
  <2>3. IsDirIn(ls[i], p) /\ HasIn(ls[i], q) /\ i \in DOMAIN ls BY <2>2, <1>5, <1>6
  <2>4. q # p BY <1>6, <1>a, ParentNeq DEF UniverseOK
  <2>5. CASE p \in wo
    <3>1. q \in {x \in Universe : Parent(x) = p /\ \E k \in DOMAIN ls : k > 1 /\ IsDirIn(ls[k], p) /\ HasIn(ls[k], x)} BY <2>3, <2>2, <1>6
    <3>2. q \in wo2 BY <3>1, <2>5
    <3> QED BY <3>2, <2>4, <1>1, <2>1
  <2>6. CASE p \notin wo
    \* then some layer holds p (as a directory), so the overlay would have seen it: contradiction with cur = none
    <3>1. HasIn(ls2[i], p) BY <2>3, <2>2, <1>a, <1>b DEF IsDirIn, HasIn
    <3>2. DOMAIN ls2 = 1..Len(ls) /\ i \in DOMAIN ls2 BY <1>b, <2>3
    <3>3. /\ FirstLayer(ls2, p) \in DOMAIN ls2 /\ HasIn(ls2[FirstLayer(ls2, p)], p)
      BY <3>1, <3>2, <1>b, FirstLayerProps
    <3>4. Lookup(ls2, wo, p) = ls2[FirstLayer(ls2, p)][p] /\ FirstLayer(ls2, p) # 0 BY <2>6, <3>3, <3>2 DEF Lookup
    <3>5. Lookup(ls2, wo, p).k # "none" BY <3>3, <3>4 DEF HasIn
    <3>6. \A a \in StrictAncestors(p) : Lookup(ls2, wo, a).k = "dir"
      <4>1. CASE Parent(p) = Root
        <5>1. Len(p) = 1 BY <4>1, <1>a DEF Parent, Root
        <5> QED BY <5>1 DEF StrictAncestors
      <4>2. CASE Parent(p) # Root
        <5>1. StrictAncestors(p) = Prefixes(Parent(p))
          <6>1. Len(Parent(p)) = Len(p) - 1 /\ Parent(p) = SubSeq(p, 1, Len(p) - 1) BY <1>a DEF Parent
          <6>2. ASSUME NEW j \in 1..(Len(p) - 1) PROVE SubSeq(p, 1, j) = SubSeq(Parent(p), 1, j)
            <7>1. SubSeq(p, 1, j) \in Seq(N) /\ Len(SubSeq(p, 1, j)) = j BY <1>a
            <7>2. SubSeq(Parent(p), 1, j) \in Seq(N) /\ Len(SubSeq(Parent(p), 1, j)) = j BY <1>a, <6>1
            <7>3. \A m \in 1..j : SubSeq(p, 1, j)[m] = SubSeq(Parent(p), 1, j)[m] BY <1>a, <6>1
            <7> QED BY <7>1, <7>2, <7>3, SeqEqual
          <6> QED BY <6>1, <6>2 DEF StrictAncestors, Prefixes
        <5>2. Parent(p) \in Universe BY <4>2 DEF UniverseOK, Root
        <5>3. e = [ok |-> "ok" \in CreateDirAll(ls[1], Parent(p)).allowed, t |-> CreateDirAll(ls[1], Parent(p)).t]
          BY <4>2, <1>1 DEF EnsureParent, UpperCreateDirAll, GetParentOK
        <5>4. ~(\E x \in Prefixes(Parent(p)) : ls[1][x].k = "file") BY <5>3, <1>1 DEF CreateDirAll, InvErr, AnyErr, ErrClasses
        <5>5. e.t = [x \in Universe |-> IF x \in Prefixes(Parent(p)) THEN Dir ELSE ls[1][x]] BY <5>3, <5>4 DEF CreateDirAll, Ok
        <5>6. ASSUME NEW a \in Prefixes(Parent(p)) PROVE Lookup(ls2, wo, a).k = "dir"
          <6>0. a \in Universe BY <5>6, <5>2 DEF PrefixClosedAll
          <6>1. ls2[1][a] = Dir BY <6>0, <5>5, <1>b
          <6>2. HasIn(ls2[1], a) BY <6>1 DEF HasIn, Dir
          <6>3. \E k \in DOMAIN ls2 : HasIn(ls2[k], a) BY <6>2, <3>2, <1>b
          <6>4. /\ FirstLayer(ls2, a) \in DOMAIN ls2 /\ \A j \in DOMAIN ls2 : HasIn(ls2[j], a) => FirstLayer(ls2, a) <= j
            BY <6>3, <3>2, <1>b, FirstLayerProps
          <6>5. FirstLayer(ls2, a) = 1 BY <6>4, <6>2, <3>2, <1>b
          <6> QED BY <6>1, <6>2, <6>5 DEF Lookup, Dir
        <5> QED BY <5>1, <5>6
      <4> QED BY <4>1, <4>2
    <3>7. cur = Lookup(ls2, wo, p) BY <3>6, <1>a DEF ReadPath
    <3> QED BY <3>5, <3>7, <1>1
  <2> QED BY <2>5, <2>6, <2>1
<1>7. ASSUME NEW q \in ListedKids(ls3, r.wo, p) PROVE FALSE
  <2>1. q \in Universe /\ Parent(q) = p /\ (\E i \in DOMAIN ls3 : IsDirIn(ls3[i], p) /\ HasIn(ls3[i], q)) /\ ~(q \in r.wo /\ ~HasIn(ls3[1], q))
    BY <1>7 DEF ListedKids
  <2> QED BY <2>1, <1>6
<1> QED BY <1>7

\* ---- C10: a re-created FILE holds only the newly written bytes, whatever the lower layers hold at the path
LEMMA UpperWins ==
  ASSUME NEW ls, NEW n \in Nat, n >= 1, DOMAIN ls = 1..n, NEW wo, NEW a, HasIn(ls[1], a)
  PROVE  Lookup(ls, wo, a) = ls[1][a]
<1>1. \E k \in DOMAIN ls : HasIn(ls[k], a) OBVIOUS
<1>2. /\ FirstLayer(ls, a) \in DOMAIN ls /\ \A j \in DOMAIN ls : HasIn(ls[j], a) => FirstLayer(ls, a) <= j
  BY <1>1, FirstLayerProps
<1>3. FirstLayer(ls, a) = 1 BY <1>2
<1> QED BY <1>3 DEF Lookup

THEOREM FreshFileAfterRecreate ==
  ASSUME UniverseOK, PrefixClosedAll, NEW ls, LayersOK(ls), NEW wo, NEW p \in Universe, NEW c \in Seq(Nat),
         OCreateFile(ls, wo, p, c).c = "ok"
  PROVE  LET r == OCreateFile(ls, wo, p, c) IN ReadPath([ls EXCEPT ![1] = r.up], r.wo, p) = File(c)
<1> DEFINE e == EnsureParent(ls, wo, p)
<1> DEFINE ls2 == [ls EXCEPT ![1] = e.t]
<1> DEFINE r == OCreateFile(ls, wo, p, c)
<1> DEFINE ls3 == [ls EXCEPT ![1] = r.up]
<1>a. p \in Seq(N) /\ p # <<>> /\ p # Root BY DEF UniverseOK, Root
<1>b. DOMAIN ls = 1..Len(ls) /\ Len(ls) \in Nat /\ Len(ls) >= 1 /\ 1 \in DOMAIN ls BY DEF LayersOK, LayersType
<1>0. GetParentOK(ls, wo, p) /\ e.ok
  <2>1. GetParentOK(ls, wo, p) BY DEF OCreateFile, Res
  <2>2. e.ok BY <2>1 DEF OCreateFile, Res
  <2> QED BY <2>1, <2>2
<1>1. "ok" \in CreateFile(e.t, p, c).allowed /\ r.up = CreateFile(e.t, p, c).t /\ r.wo = wo \ {p}
  <2>1. ReadPath(ls2, wo, p).k # "dir" BY <1>0 DEF OCreateFile, Res
  <2>2. r = IF "ok" \in CreateFile(e.t, p, c).allowed THEN Res("ok", CreateFile(e.t, p, c).t, wo \ {p}) ELSE Res("err", e.t, wo)
    BY <1>0, <2>1 DEF OCreateFile
  <2> QED BY <2>2 DEF Res
<1>2. r.up = [e.t EXCEPT ![p] = File(c)] BY <1>1 DEF CreateFile, Ok, Fail, AnyErr, ErrClasses
<1>3. e.t \in [Universe -> [k : {"none", "dir", "file"}, d : Seq(Nat)]]
      /\ \A x \in Prefixes(Parent(p)) : Parent(p) # Root => e.t[x] = Dir
  <2>0. ls[1] \in [Universe -> [k : {"none", "dir", "file"}, d : Seq(Nat)]] BY <1>b DEF LayersOK, LayersType
  <2>1. CASE Parent(p) = Root BY <2>1, <1>0, <2>0 DEF EnsureParent, UpperCreateDirAll, GetParentOK
  <2>2. CASE Parent(p) # Root
    <3>1. Parent(p) \in Universe BY <2>2 DEF UniverseOK, Root
    <3>2. e = [ok |-> "ok" \in CreateDirAll(ls[1], Parent(p)).allowed, t |-> CreateDirAll(ls[1], Parent(p)).t]
      BY <2>2, <1>0 DEF EnsureParent, UpperCreateDirAll, GetParentOK
    <3>3. ~(\E x \in Prefixes(Parent(p)) : ls[1][x].k = "file") BY <3>2, <1>0 DEF CreateDirAll, InvErr, AnyErr, ErrClasses
    <3>4. e.t = [x \in Universe |-> IF x \in Prefixes(Parent(p)) THEN Dir ELSE ls[1][x]] BY <3>2, <3>3 DEF CreateDirAll, Ok
    <3>5. Prefixes(Parent(p)) \subseteq Universe BY <3>1 DEF PrefixClosedAll
    <3> QED BY <3>4, <3>5, <2>0 DEF Dir
  <2> QED BY <2>1, <2>2
<1>4. ls3[1] = r.up /\ DOMAIN ls3 = 1..Len(ls) BY <1>b
<1>5. r.up[p] = File(c) /\ HasIn(r.up, p) BY <1>2, <1>3 DEF HasIn, File
<1>6. Lookup(ls3, r.wo, p) = File(c) BY <1>4, <1>5, <1>b, UpperWins
<1>7. \A a \in StrictAncestors(p) : Lookup(ls3, r.wo, a).k = "dir"
  <2>1. CASE Parent(p) = Root
    <3>1. Len(p) = 1 BY <2>1, <1>a DEF Parent, Root
    <3> QED BY <3>1 DEF StrictAncestors
  <2>2. CASE Parent(p) # Root
    <3>1. StrictAncestors(p) = Prefixes(Parent(p))
      <4>1. Len(Parent(p)) = Len(p) - 1 /\ Parent(p) = SubSeq(p, 1, Len(p) - 1) BY <1>a DEF Parent
      <4>2. ASSUME NEW j \in 1..(Len(p) - 1) PROVE SubSeq(p, 1, j) = SubSeq(Parent(p), 1, j)
        <5>1. SubSeq(p, 1, j) \in Seq(N) /\ Len(SubSeq(p, 1, j)) = j BY <1>a
        <5>2. SubSeq(Parent(p), 1, j) \in Seq(N) /\ Len(SubSeq(Parent(p), 1, j)) = j BY <1>a, <4>1
        <5>3. \A m \in 1..j : SubSeq(p, 1, j)[m] = SubSeq(Parent(p), 1, j)[m] BY <1>a, <4>1
        <5> QED BY <5>1, <5>2, <5>3, SeqEqual
      <4> QED BY <4>1, <4>2 DEF StrictAncestors, Prefixes
    <3>2. Parent(p) \in Universe BY <2>2 DEF UniverseOK, Root
    <3>3. ASSUME NEW a \in Prefixes(Parent(p)) PROVE Lookup(ls3, r.wo, a).k = "dir"
      <4>0. a \in Universe BY <3>2 DEF PrefixClosedAll
      <4>1. a # p
        <5>1. Len(a) <= Len(p) - 1 BY <1>a DEF Prefixes, Parent
        <5> QED BY <5>1, <1>a
      <4>2. r.up[a] = Dir BY <1>2, <1>3, <4>0, <4>1, <2>2
      <4>3. HasIn(ls3[1], a) BY <4>2, <1>4 DEF HasIn, Dir
      <4>4. Lookup(ls3, r.wo, a) = ls3[1][a] BY <4>3, <1>4, <1>b, UpperWins
      <4> QED BY <4>4, <4>2, <1>4 DEF Dir
    <3> QED BY <3>1, <3>3
  <2> QED BY <2>1, <2>2
<1> QED BY <1>6, <1>7, <1>a DEF ReadPath
=============================================================================
