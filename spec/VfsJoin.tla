------------------------------ MODULE VfsJoin ------------------------------
(***************************************************************************)
(* LEVEL A for path algebra (C06): strings are sequences of CHARACTER      *)
(* TOKENS ("/" and "." are the two special tokens, every other token is an  *)
(* ordinary - possibly multi-byte - character).  A path is a sequence of   *)
(* components, a component a non-empty sequence of tokens.                 *)
(*   Resolve(base, arg)  declarative lexical resolution                    *)
(*   Rejects(arg)        the only rejection: a trailing slash              *)
(*   JoinImpl            LEVEL B: transcription of PathLike::join_internal *)
(*                       (component stack + fallback to the base's parent) *)
(***************************************************************************)
EXTENDS Naturals, Sequences, FiniteSets, TLC

RECURSIVE SplitAcc(_, _, _)
SplitAcc(s, cur, acc) == IF s = <<>> THEN Append(acc, cur)
                         ELSE IF Head(s) = "/" THEN SplitAcc(Tail(s), <<>>, Append(acc, cur))
                         ELSE SplitAcc(Tail(s), Append(cur, Head(s)), acc)
Split(s) == SplitAcc(s, <<>>, <<>>)
Dot == <<".">>
DotDot == <<".", ".">>
Front(s) == SubSeq(s, 1, Len(s) - 1)

\* canonical form: no empty, "." or ".." component, no "/" inside a component
CanonComp(c) == c # <<>> /\ c # Dot /\ c # DotDot /\ \A i \in DOMAIN c : c[i] # "/"
Canonical(p) == \A i \in DOMAIN p : CanonComp(p[i])

\* ---- declarative resolution: "cd" one component at a time, clamped at the root
Cd(p, c) == IF c = <<>> \/ c = Dot THEN p
            ELSE IF c = DotDot THEN (IF p = <<>> THEN <<>> ELSE Front(p))
            ELSE Append(p, c)
RECURSIVE CdAll(_, _)
CdAll(p, cs) == IF cs = <<>> THEN p ELSE CdAll(Cd(p, Head(cs)), Tail(cs))
Rejects(a) == Len(a) > 1 /\ a[Len(a)] = "/"
Resolve(base, a) == IF a = <<>> THEN base ELSE CdAll(IF a[1] = "/" THEN <<>> ELSE base, Split(a))

\* ---- accessors
PParent(p) == IF p = <<>> THEN <<>> ELSE Front(p)
Filename(p) == IF p = <<>> THEN <<>> ELSE p[Len(p)]
\* extension: the part after the last "." of the file name, if the name has a "." that is not its first character
LastDot(f) == LET S == {i \in DOMAIN f : f[i] = "."} IN IF S = {} THEN 0 ELSE CHOOSE i \in S : \A j \in S : j <= i
HasExt(f) == LastDot(f) > 1
Ext(f) == SubSeq(f, LastDot(f) + 1, Len(f))

\* ---- LEVEL B: join_internal as written (src/path.rs)
RECURSIVE Loop(_, _, _)
Loop(cs, stack, base) ==
  IF cs = <<>> THEN base \o stack
  ELSE LET c == Head(cs) IN
       IF c = Dot \/ c = <<>> THEN Loop(Tail(cs), stack, base)
       ELSE IF c = DotDot THEN (IF stack # <<>> THEN Loop(Tail(cs), Front(stack), base)
                                ELSE Loop(Tail(cs), stack, IF base = <<>> THEN <<>> ELSE Front(base)))
       ELSE Loop(Tail(cs), Append(stack, c), base)
JoinImpl(base, a) == IF a = <<>> THEN base ELSE Loop(Split(a), <<>>, IF a[1] = "/" THEN <<>> ELSE base)
=============================================================================
