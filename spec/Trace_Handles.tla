--------------------------- MODULE Trace_Handles ---------------------------
(* Trace validation for C14 / C04: every recorded handle call (open, read, seek, write, flush,    *)
(* drop, remove) on a handle obtained from a real backend is compared with the cursor machines of *)
(* VfsHandles; after every call the published bytes seen by a FRESH reader are compared too.      *)
EXTENDS VfsHandles, Json, IOUtils
Rec == ndJsonDeserialize(IOEnv.TRACE)
VARIABLES l, st, tainted, seg, cfg, sup, crv, bpos
vars == <<l, st, tainted, seg, cfg, sup, crv, bpos>>
Report(kind, rec) == PrintT(<<kind, ToJson(rec)>>)

IsPrefixSeq(a, b) == Len(a) <= Len(b) /\ SubSeq(b, 1, Len(a)) = a
\* a read may be short but never empty while bytes remain, never out of order or out of range
ReadOK(got, want) == IsPrefixSeq(got, want) /\ (want # <<>> => got # <<>>)

FreshOK(e, s) ==
  ~Quiescent(s) \/
  IF s.isdir THEN e.fresh.c \notin {"ok", "panic"} /\ e.fresh.k = "dir" /\ e.fresh.len = 0      \* a directory at the path stays an (empty-length) directory
  ELSE IF Exists(s) THEN e.fresh.c = "ok" /\ e.fresh.v = s.file /\ e.fresh.len = Len(s.file) /\ e.fresh.k = "file"
  ELSE e.fresh.c = "notfound"
\* creation time (C19): once set it survives every later write / append / flush / drop until the file is created anew
CrOK(e, c2) == c2 \in {"none", "any"} \/ e.fresh.cr = c2

Bad(e, r, s2) ==
  (IF e.res.c = "panic" \/ e.fresh.c = "panic" THEN {"nopanic"} ELSE {})
  \cup (IF e.res.c \in r.c THEN {} ELSE {"class"})
  \cup (IF e.res.c = "ok" /\ "ok" \in r.c /\ e.o.op = "read" /\ ~ReadOK(e.res.v, r.v) THEN {"read"} ELSE {})
  \cup (IF e.res.c = "ok" /\ "ok" \in r.c /\ e.o.op \in {"seek_r", "seek_w"} /\ e.res.v # r.v THEN {"seek"} ELSE {})
  \cup (IF FreshOK(e, s2) THEN {} ELSE {"published"})
  \cup (IF e.o.op = "set_cr" /\ e.res.c # (IF "cr" \in sup THEN "ok" ELSE "not_supported") THEN {"class"} ELSE {})

\* what was judged (vacuity guard): TLC registers, single worker; totals are printed with DONE
CN == [scripts |-> 201, calls |-> 202, reads_checked |-> 203, seeks_checked |-> 204, published_checked |-> 205, detached |-> 206,
       past_end |-> 207, zero_len_reads |-> 208, errors_expected |-> 209, cr_checked |-> 210, big_seeks |-> 211]
Bump(i) == TLCSet(i, TLCGet(i) + 1)
BumpIf(c, i) == IF c THEN Bump(i) ELSE TRUE
Counters == [x \in DOMAIN CN |-> TLCGet(CN[x])]
\* ---- seeks with extreme offsets (C14 "seeks at any offset", C13).  TLC integers are 32 bit wide, so an
\* offset or position near a multiple of 2^62 is the pair <<hi, lo>> = hi * 2^62 + lo with a small lo:
\* u64::MAX = <<4,-1>>, i64::MAX = <<2,-1>>, i64::MIN = <<-2,0>>.  Addition and comparison work on pairs.
BAdd(a, b) == <<a[1] + b[1], a[2] + b[2]>>
BLess(a, b) == a[1] < b[1] \/ (a[1] = b[1] /\ a[2] < b[2])
BZero == <<0, 0>>
U64Max == <<4, -1>>
Small(t) == t[1] = 0 /\ t[2] >= 0                        \* every backend must accept it
Representable(t) == ~BLess(t, BZero) /\ ~BLess(U64Max, t)  \* a u64 position (a backend may refuse beyond its own limit)
BTarget(pos, len, o) == IF o.w = "start" THEN <<o.hi, o.lo>> ELSE IF o.w = "cur" THEN BAdd(pos, <<o.hi, o.lo>>) ELSE BAdd(<<0, len>>, <<o.hi, o.lo>>)
Init == bpos = <<>> /\ l = 1 /\ st = InitH /\ tainted = FALSE /\ seg = 0 /\ cfg = "-" /\ sup = {} /\ crv = "none" /\ \A x \in DOMAIN CN : TLCSet(CN[x], 0)
SegInit ==
  /\ l <= Len(Rec) /\ Rec[l].ev = "hinit"
  /\ st' = [InitH EXCEPT !.ex = Rec[l].file0.ex, !.file = Rec[l].file0.d]
  /\ tainted' = FALSE /\ seg' = seg + 1 /\ cfg' = Rec[l].cfg /\ bpos' = <<>>
  /\ sup' = {Rec[l].sup[i] : i \in DOMAIN Rec[l].sup} /\ crv' = IF Rec[l].file0.ex THEN "any" ELSE "none"
  /\ Bump(CN.scripts)
  /\ l' = l + 1
BSeek ==
  /\ l <= Len(Rec) /\ Rec[l].ev = "hcall" /\ Rec[l].o.op = "bseek"
  /\ LET e == Rec[l]
         o == e.o
         isw == st.w.open
         pos0 == IF bpos # <<>> THEN bpos ELSE <<0, (IF isw THEN st.w.pos ELSE st.r.pos) * o.b>>
         len == (IF isw THEN Len(st.w.buf) ELSE Len(st.r.data)) * o.b
         t == BTarget(pos0, len, o)
         \* where an append handle stands before its first write is backend-specific (end of file in memory, 0 for
         \* an O_APPEND descriptor): a seek relative to the current position is judged once the position is known
         known == o.w # "cur" \/ bpos # <<>> \/ ~(isw /\ st.w.app)
         bad == (IF e.res.c = "panic" THEN {"nopanic"} ELSE {})
                \cup (IF known /\ e.res.c = "ok" /\ ~Representable(t) THEN {"seek"} ELSE {})            \* wrapped around instead of failing
                \cup (IF known /\ e.res.c = "ok" /\ Representable(t) /\ e.res.v # t THEN {"seek"} ELSE {})  \* landed somewhere else
                \cup (IF known /\ e.res.c # "ok" /\ e.res.c # "panic" /\ Small(t) THEN {"class"} ELSE {}) IN  \* refused an ordinary position
     /\ bpos' = IF e.res.c = "ok" THEN e.res.v ELSE bpos        \* a failed seek leaves the position alone (unknown stays unknown)
     /\ tainted' = (tainted \/ bad # {})
     /\ Bump(CN.calls) /\ Bump(CN.big_seeks)
     /\ IF bad = {} THEN TRUE
        ELSE Report("VIOL", [l |-> l, seg |-> seg, secondary |-> tainted, conjs |-> bad,
                             sig |-> [conj |-> CHOOSE c \in bad : TRUE, op |-> "bseek", kind |-> "handles", cfg |-> cfg,
                                      wh |-> o.w, got |-> e.res.c, want |-> {IF Representable(t) THEN "ok" ELSE "err"},
                                      handle |-> IF isw THEN "write" ELSE "read", past_end |-> TRUE, detached |-> st.w.det,
                                      from |-> pos0, offset |-> <<o.hi, o.lo>>]])
  /\ UNCHANGED <<seg, cfg, sup, st, crv>>
  /\ l' = l + 1
Call ==
  /\ l <= Len(Rec) /\ Rec[l].ev = "hcall" /\ Rec[l].o.op # "bseek"
  /\ LET e == Rec[l]
         r == Step(st, e.o)
         \* follow the observed length of a (possibly short) read
         s2 == IF e.o.op = "read" /\ e.res.c = "ok" THEN [r.s EXCEPT !.r.pos = st.r.pos + Len(e.res.v)] ELSE r.s
         c2 == IF e.res.c # "ok" THEN crv
               ELSE IF e.o.op = "set_cr" THEN e.o.tv
               ELSE IF e.o.op = "open_create" THEN "any"
               ELSE IF e.o.op = "remove" THEN "none" ELSE crv
         bad == IF e.o.op = "xseek" THEN (IF e.res.c = "panic" THEN {"nopanic"} ELSE {})
                ELSE Bad(e, r, s2) \cup (IF Quiescent(s2) /\ Exists(s2) /\ e.fresh.c = "ok" /\ ~CrOK(e, c2) THEN {"times"} ELSE {}) IN
     /\ st' = s2 /\ crv' = c2
     /\ tainted' = (tainted \/ bad # {} \/ e.o.op = "xseek")
     /\ Bump(CN.calls)
     /\ BumpIf(e.res.c = "ok" /\ "ok" \in r.c /\ e.o.op = "read", CN.reads_checked)
     /\ BumpIf(e.res.c = "ok" /\ "ok" \in r.c /\ e.o.op \in {"seek_r", "seek_w"}, CN.seeks_checked)
     /\ BumpIf(e.o.op # "xseek" /\ Quiescent(s2), CN.published_checked)
     /\ BumpIf(st.w.det, CN.detached)
     /\ BumpIf(IF st.r.open THEN st.r.pos > Len(st.r.data) ELSE st.w.open /\ st.w.pos > Len(st.w.buf), CN.past_end)
     /\ BumpIf(e.o.op = "read" /\ e.res.c = "ok" /\ Len(e.res.v) = 0, CN.zero_len_reads)
     /\ BumpIf("ok" \notin r.c, CN.errors_expected)
     /\ BumpIf(e.o.op # "xseek" /\ Quiescent(s2) /\ Exists(s2) /\ e.fresh.c = "ok" /\ c2 \notin {"none", "any"}, CN.cr_checked)
     /\ IF bad = {} THEN TRUE
        ELSE Report("VIOL", [l |-> l, seg |-> seg, secondary |-> tainted, conjs |-> bad,
                             sig |-> [conj |-> CHOOSE c \in bad : TRUE, op |-> e.o.op, kind |-> "handles", cfg |-> cfg,
                                      wh |-> e.o.wh, got |-> e.res.c, want |-> r.c,
                                      handle |-> IF st.w.open THEN (IF st.w.app THEN "append" ELSE "create") ELSE IF st.r.open THEN "read" ELSE "none",
                                      past_end |-> IF st.r.open THEN st.r.pos > Len(st.r.data) ELSE st.w.pos > Len(st.w.buf),
                                      detached |-> st.w.det]])
  /\ UNCHANGED <<seg, cfg, sup, bpos>>
  /\ l' = l + 1
Next == SegInit \/ Call \/ BSeek
TrSpec == Init /\ [][Next]_vars
Consumed ==
  IF TLCGet("stats").diameter - 1 = Len(Rec) THEN Report("DONE", [events |-> Len(Rec), judged |-> Counters])
  ELSE Report("STUCK", [at |-> TLCGet("stats").diameter, of |-> Len(Rec)]) /\ FALSE
=============================================================================
