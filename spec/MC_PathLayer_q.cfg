SPECIFICATION Spec
INVARIANT CreateDirAllRefines
INVARIANT RemoveDirAllRefines
INVARIANT CopyFileRefines
INVARIANT MoveFileRefines
INVARIANT CopyDirRefines
INVARIANT MoveDirRefines
INVARIANT WalkOK
CHECK_DEADLOCK FALSE
CONSTANTS
  USeq <- U_small
  Universe <- UU
  ContentSet <- C_set
