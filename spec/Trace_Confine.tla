--------------------------- MODULE Trace_Confine ---------------------------
(***************************************************************************)
(* Trace validation for the confinement half of C07: hostile path          *)
(* expressions (any number of "..", absolute segments, doubled slashes,    *)
(* odd characters) joined onto the root of an altroot filesystem rooted at *)
(* P (or of a PhysicalFS rooted in a sandbox directory), then every        *)
(* operation applied to the result.  One event = one (argument, world):    *)
(*   confined : every path handed to the underlying filesystem lies in P   *)
(*   outside  : the snapshot of everything outside P (canaries beside and  *)
(*              above P; the sandbox around a PhysicalFS root, taken with  *)
(*              std::fs) is unchanged                                      *)
(*   leak     : no read through the hostile path returned canary bytes     *)
(*   nopanic                                                               *)
(***************************************************************************)
EXTENDS Integers, Sequences, FiniteSets, TLC, Json, IOUtils
Rec == ndJsonDeserialize(IOEnv.TRACE)
VARIABLE l
Report(kind, rec) == PrintT(<<kind, ToJson(rec)>>)
IsPrefix(p, q) == Len(p) <= Len(q) /\ SubSeq(q, 1, Len(p)) = p
Core(snap) == {[p |-> snap[i].p, k |-> snap[i].k, d |-> snap[i].d] : i \in DOMAIN snap}
StrictlyInside(P, p) == Len(P) < Len(p) /\ SubSeq(p, 1, Len(P)) = P
Outside(snap, P) == {x \in Core(snap) : ~StrictlyInside(P, x.p)}
Bad(e) ==
  (IF \E i \in DOMAIN e.ops : e.ops[i].c = "panic" THEN {"nopanic"} ELSE {})
  \cup (IF e.join.c = "panic" THEN {"nopanic"} ELSE {})
  \cup (IF \A i \in DOMAIN e.ucalls : IsPrefix(e.prefix, e.ucalls[i]) THEN {} ELSE {"confined"})
  \cup (IF Outside(e.outside_before, e.prefix) = Outside(e.outside_after, e.prefix) THEN {} ELSE {"outside"})
  \cup (IF e.leak THEN {"leak"} ELSE {})
  \* C07 on the root itself: an operation with the altroot's root as target or destination has the same outcome
  \* as on P of the underlying filesystem, and afterwards both worlds answer the same about that directory
  \cup (IF "twinpairs" \in DOMAIN e /\ \E i \in DOMAIN e.twinpairs : e.twinpairs[i].alt # e.twinpairs[i].under THEN {"twinroot"} ELSE {})
  \* C12 on hostile directory content: a create_dir target occupied by a symbolic link (dangling, looping or
  \* resolving) is reported as file-exists / directory-exists with the caller's path
  \cup (IF "occupied" \in DOMAIN e /\ \E i \in DOMAIN e.occupied : ~(e.occupied[i].k \in {"file_exists", "dir_exists"} /\ e.occupied[i].ep_ok) THEN {"occupied"} ELSE {})
\* what was judged (vacuity guard): TLC registers, single worker; totals are printed with DONE
CN == [events |-> 701, with_dotdot |-> 702, absolute |-> 703, underlying_calls_seen |-> 704, operations |-> 705]
Bump(i) == TLCSet(i, TLCGet(i) + 1)
BumpIf(c, i) == IF c THEN Bump(i) ELSE TRUE
Counters == [x \in DOMAIN CN |-> TLCGet(CN[x])]
Next ==
  /\ l <= Len(Rec)
  /\ LET e == Rec[l]  bad == Bad(e) IN
     /\ Bump(CN.events) /\ BumpIf(e.shape.dotdot, CN.with_dotdot) /\ BumpIf(e.shape.abs, CN.absolute) /\ BumpIf(Len(e.ucalls) > 0, CN.underlying_calls_seen)
     /\ TLCSet(CN.operations, TLCGet(CN.operations) + Len(e.ops))
     /\ (IF bad = {} THEN TRUE
          ELSE Report("VIOL", [l |-> l, seg |-> l, secondary |-> FALSE, conjs |-> bad,
                          sig |-> [conj |-> CHOOSE c \in bad : TRUE, op |-> "hostile", kind |-> IF "kindtag" \in DOMAIN e THEN e.kindtag ELSE "confine", cfg |-> e.cfg,
                                   panicking |-> {e.ops[i].op : i \in {j \in DOMAIN e.ops : e.ops[j].c = "panic"}},
                                   dotdot |-> e.shape.dotdot, doubled_slash |-> e.shape.dslash, absolute |-> e.shape.abs]]))
  /\ l' = l + 1
Init == l = 1 /\ \A x \in DOMAIN CN : TLCSet(CN[x], 0)
TrSpec == Init /\ [][Next]_l
Consumed ==
  IF TLCGet("stats").diameter - 1 = Len(Rec) THEN Report("DONE", [events |-> Len(Rec), judged |-> Counters])
  ELSE Report("STUCK", [at |-> TLCGet("stats").diameter, of |-> Len(Rec)]) /\ FALSE
=============================================================================
