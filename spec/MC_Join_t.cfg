SPECIFICATION Spec
INVARIANT Laws
CHECK_DEADLOCK FALSE
CONSTANTS
  Alpha <- MCAlpha
  MaxLen = 8
  EmitCases = FALSE
