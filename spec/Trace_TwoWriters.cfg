SPECIFICATION TrSpec
POSTCONDITION Consumed
CHECK_DEADLOCK FALSE
