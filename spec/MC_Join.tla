------------------------------ MODULE MC_Join ------------------------------
(* All argument strings up to MaxLen over Alpha against a set of bases:    *)
(* JoinImpl = Resolve, canonical results, root clamp, absolute restart,    *)
(* parent/filename laws, composition law.  With EmitCases = TRUE prints    *)
(* every (base, arg) case for the harness (spec -> code).                  *)
EXTENDS VfsJoin, Json
CONSTANTS Alpha, MaxLen, EmitCases

RECURSIVE StrsUpTo(_)
StrsUpTo(n) == IF n = 0 THEN {<<>>} ELSE LET S == StrsUpTo(n - 1) IN S \cup {Append(s, c) : s \in {x \in S : Len(x) = n - 1}, c \in Alpha}
Bases == {<<>>, << <<"a">> >>, << <<"a">>, <<"e">> >>, << <<"a">>, <<"a", ".">>, <<".", "e">> >>}
Args == StrsUpTo(MaxLen)
SmallArgs == StrsUpTo(3)

ImplEqSpec == \A b \in Bases, a \in Args : ~Rejects(a) => JoinImpl(b, a) = Resolve(b, a)
CanonicalResult == \A b \in Bases, a \in Args : ~Rejects(a) => Canonical(Resolve(b, a))
ParentOfJoinName == \A b \in Bases, a \in Args : CanonComp(a) => PParent(Resolve(b, a)) = b /\ Filename(Resolve(b, a)) = a
AbsoluteIgnoresBase == \A b \in Bases, a \in Args : (a # <<>> /\ a[1] = "/" /\ ~Rejects(a)) => Resolve(b, a) = Resolve(<<>>, a)
RootClamp == \A a \in Args : (a # <<>> /\ ~Rejects(a)) => Resolve(<<>>, a) = Resolve(<<>>, <<"/">> \o a)
Composition == \A p \in Bases, a \in SmallArgs, b \in SmallArgs :
   (a # <<>> /\ b # <<>> /\ b[1] # "/" /\ ~Rejects(a) /\ ~Rejects(b)) => Resolve(Resolve(p, a), b) = Resolve(p, a \o <<"/">> \o b)
Laws == ImplEqSpec /\ CanonicalResult /\ ParentOfJoinName /\ AbsoluteIgnoresBase /\ RootClamp /\ Composition

VARIABLE done
Init == done = FALSE
Next == done = FALSE /\ done' = TRUE
      /\ (IF EmitCases THEN \A b \in Bases, a \in Args : PrintT(<<"CASE", ToJson([base |-> b, arg |-> a])>>) ELSE TRUE)
Spec == Init /\ [][Next]_done
=============================================================================
