------------------------- MODULE Trace_TwoWriters -------------------------
(***************************************************************************)
(* C15 with OVERLAPPING write handles (outside the single-writer cursor    *)
(* machines of VfsHandles): one script of two write handles A and B on the *)
(* same path - open (create / append), write, flush, drop, remove, in any  *)
(* order - is executed on a synchronous configuration and on its async     *)
(* twin.  One event = one script; after every step                         *)
(*   same    : the call had the same outcome in both worlds and a fresh    *)
(*             reader sees the same class, bytes and length                *)
(*   nopanic : nothing panicked in either world                            *)
(* The sync world is the reference; no other model is involved.            *)
(***************************************************************************)
EXTENDS Integers, Sequences, FiniteSets, TLC, Json, IOUtils
Rec == ndJsonDeserialize(IOEnv.TRACE)
VARIABLE l
Report(kind, rec) == PrintT(<<kind, ToJson(rec)>>)
CN == [scripts |-> 801, steps |-> 802, with_both_open |-> 803]
Bump(i) == TLCSet(i, TLCGet(i) + 1)
Counters == [x \in DOMAIN CN |-> TLCGet(CN[x])]
Panicked(s) == s.sync.c = "panic" \/ s.async.c = "panic" \/ s.sync.pub.c = "panic" \/ s.async.pub.c = "panic"
Bad(e) ==
  (IF \E i \in DOMAIN e.steps : Panicked(e.steps[i]) THEN {"nopanic"} ELSE {})
  \cup (IF \E i \in DOMAIN e.steps : e.steps[i].sync # e.steps[i].async THEN {"same"} ELSE {})
FirstDiff(e) == LET S == {i \in DOMAIN e.steps : e.steps[i].sync # e.steps[i].async} IN
                IF S = {} THEN 0 ELSE CHOOSE i \in S : \A j \in S : i <= j
Next ==
  /\ l <= Len(Rec)
  /\ LET e == Rec[l]  bad == Bad(e) IN
     /\ Bump(CN.scripts) /\ TLCSet(CN.steps, TLCGet(CN.steps) + Len(e.steps))
     /\ (IF bad = {} THEN TRUE
         ELSE Report("VIOL", [l |-> l, seg |-> l, secondary |-> FALSE, conjs |-> bad,
                              sig |-> [conj |-> CHOOSE c \in bad : TRUE, op |-> "two_writers", kind |-> "twowriters", cfg |-> e.cfg,
                                       at |-> IF FirstDiff(e) = 0 THEN "-" ELSE e.steps[FirstDiff(e)].op,
                                       who |-> IF FirstDiff(e) = 0 THEN "-" ELSE e.steps[FirstDiff(e)].who]]))
  /\ l' = l + 1
Init == l = 1 /\ \A x \in DOMAIN CN : TLCSet(CN[x], 0)
TrSpec == Init /\ [][Next]_l
Consumed ==
  IF TLCGet("stats").diameter - 1 = Len(Rec) THEN Report("DONE", [events |-> Len(Rec), judged |-> Counters])
  ELSE Report("STUCK", [at |-> TLCGet("stats").diameter, of |-> Len(Rec)]) /\ FALSE
=============================================================================
