---- MODULE MC_Overlay_q ----
EXTENDS MC_Overlay
U4 == << <<"a">>, <<"b">>, <<"a","a">>, <<"a","b">> >>
C2 == { <<>>, <<1>>, <<1,1>> }
UU == Range(U4)
====
