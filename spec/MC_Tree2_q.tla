---- MODULE MC_Tree2_q ----
EXTENDS MC_Tree2
U2 == << <<"a">>, <<"b">>, <<"a","a">> >>
C2 == { <<>>, <<1,2>> }
====
