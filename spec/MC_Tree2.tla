------------------------------ MODULE MC_Tree2 ------------------------------
(***************************************************************************)
(* LEVEL A for transfers ACROSS two filesystem instances (C11): the world  *)
(* is a pair of trees; copy_file / move_file / copy_dir / move_dir take a  *)
(* source (instance i, path s) and a destination (instance j, path d).     *)
(* For i = j the one-instance operators of VfsTree apply; for i # j the    *)
(* effect must be the same: a byte- and structure-identical copy below d   *)
(* in tree j, the source untouched (copy) or gone (move), an existing      *)
(* destination refused without side effects.                               *)
(* Initial states: every pair of well-formed trees of the universe.        *)
(***************************************************************************)
EXTENDS VfsPaths, Integers, TLC, Json
CONSTANTS USeq, ContentSet, EmitLTS
Universe == Range(USeq)
INSTANCE VfsTree2

VARIABLE w            \* <<tree1, tree2>>

Enc(n) == IF n.k = "none" THEN <<0>> ELSE IF n.k = "dir" THEN <<1>> ELSE <<2>> \o n.d
Snap(t) == [i \in 1..Len(USeq) |-> Enc(t[USeq[i]])]

Do(op, i, s, j, d) ==
  LET r == Cross(op, w[i], s, w[j], d) IN
  /\ i # j
  /\ XFits(w[i], s, d)
  /\ w' = [w EXCEPT ![i] = r.ti, ![j] = r.tj]
  /\ Assert(WellFormed(r.ti) /\ WellFormed(r.tj), "WellFormed violated")
  /\ Assert(r.regime = "spec" /\ "ok" \notin r.allowed => (r.ti = w[i] /\ r.tj = w[j]), "refusal with side effects")
  /\ (IF EmitLTS THEN PrintT(<<"EDGE", ToJson([from |-> <<Snap(w[1]), Snap(w[2])>>, op |-> op, i |-> i, p |-> s, j |-> j, q |-> d,
                                                 allowed |-> r.allowed, regime |-> r.regime, val |-> r.val,
                                                 to |-> <<Snap(IF i = 1 THEN r.ti ELSE r.tj), Snap(IF i = 2 THEN r.ti ELSE r.tj)>>])>>) ELSE TRUE)
Next == \E op \in {"copy_file", "move_file", "copy_dir", "move_dir"}, i \in {1, 2}, j \in {1, 2}, s \in Universe, d \in Universe : Do(op, i, s, j, d)

Nodes == {Absent, Dir} \cup {File(c) : c \in ContentSet}
Trees == {t \in [Universe -> Nodes] : WellFormed(t)}
Init == w \in Trees \X Trees
Spec == Init /\ [][Next]_w
InvWF == WellFormed(w[1]) /\ WellFormed(w[2])
InvEmitState == IF EmitLTS THEN PrintT(<<"STATE", ToJson(<<Snap(w[1]), Snap(w[2])>>)>>) ELSE TRUE
ASSUME IF EmitLTS THEN PrintT(<<"UNIVERSE", ToJson(USeq)>>) ELSE TRUE
=============================================================================
