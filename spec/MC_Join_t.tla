---- MODULE MC_Join_t ----
EXTENDS MC_Join
MCAlpha == {"/", ".", "a", "e"}
====
