----------------------------- MODULE MC_Tree -----------------------------
(***************************************************************************)
(* Model-checking instance of Level A over a bounded universe.             *)
(*  - checks the contract's own invariants (WellFormed, Frame) on every    *)
(*    reachable state / transition                                         *)
(*  - with EmitLTS = TRUE (run with -workers 1) prints the complete        *)
(*    labelled transition system: one STATE line per distinct state, one   *)
(*    EDGE line per (state, operation, arguments).  The harness replays    *)
(*    these edges on the real code (spec -> code).                         *)
(***************************************************************************)
EXTENDS VfsPaths, Integers, TLC, Json

CONSTANTS USeq,            \* universe as a sequence
          ContentSet,      \* file contents allowed in states
          CreateArgs,      \* contents written by create_file
          AppendArgs,      \* contents written by append_file
          EmitLTS
Universe == Range(USeq)
INSTANCE VfsTree

VARIABLE tree
Cfg == [sup |-> {"cr", "mo", "ac"}, ro |-> FALSE]

Enc(n) == IF n.k = "none" THEN <<0>> ELSE IF n.k = "dir" THEN <<1>> ELSE <<2>> \o n.d
Snap(t) == [i \in 1..Len(USeq) |-> Enc(t[USeq[i]])]
InBounds(t) == \A p \in Universe : t[p].k = "file" => t[p].d \in ContentSet

Do(e) ==
  LET r == Apply(e, tree, Cfg) IN
  /\ InBounds(r.t)
  /\ tree' = r.t
  /\ Assert(FrameOK(e, tree, r), <<"Frame violated", e>>)
  /\ Assert(WellFormed(r.t), <<"WellFormed violated", e>>)
  /\ IF EmitLTS
     THEN PrintT(<<"EDGE", ToJson([from |-> Snap(tree), op |-> e.op, p |-> e.p, q |-> e.q, c |-> e.c, f |-> e.f,
                                   allowed |-> r.allowed, regime |-> r.regime, val |-> r.val, to |-> Snap(r.t)])>>)
     ELSE TRUE

E(op, p, q, c, f) == [op |-> op, p |-> p, q |-> q, c |-> c, f |-> f]

Next ==
  \/ \E p \in Universe : Do(E("create_dir", p, <<>>, <<>>, ""))
  \/ \E p \in Universe, c \in CreateArgs : Do(E("create_file", p, <<>>, c, ""))
  \/ \E p \in Universe, c \in AppendArgs : Do(E("append_file", p, <<>>, c, ""))
  \/ \E p \in Universe : Do(E("remove_file", p, <<>>, <<>>, ""))
  \/ \E p \in Universe : Do(E("remove_dir", p, <<>>, <<>>, ""))
  \/ \E p \in Universe, f \in {"cr", "mo", "ac"} : Do(E("set_time", p, <<>>, <<>>, f))
  \/ \E p \in Universe : Do(E("create_dir_all", p, <<>>, <<>>, ""))
  \/ \E p \in Universe : Do(E("remove_dir_all", p, <<>>, <<>>, ""))
  \* (a wrong-typed source - a directory - may be moved as a whole by some backends: keep it inside the universe)
  \/ \E s \in Universe, d \in Universe : (tree[s].k = "dir" => (~IsPrefix(s, d) /\ Fits(tree, s, d))) /\ Do(E("copy_file", s, d, <<>>, ""))
  \/ \E s \in Universe, d \in Universe : (tree[s].k = "dir" => (~IsPrefix(s, d) /\ Fits(tree, s, d))) /\ Do(E("move_file", s, d, <<>>, ""))
  \/ \E s \in Universe, d \in Universe : ~IsPrefix(s, d) /\ Fits(tree, s, d) /\ Do(E("copy_dir", s, d, <<>>, ""))
  \/ \E s \in Universe, d \in Universe : ~IsPrefix(s, d) /\ Fits(tree, s, d) /\ Do(E("move_dir", s, d, <<>>, ""))

Init == tree = EmptyTree
Spec == Init /\ [][Next]_tree

InvWellFormed == WellFormed(tree)
InvEmitState == IF EmitLTS THEN PrintT(<<"STATE", ToJson(Snap(tree))>>) ELSE TRUE
ASSUME PrefixClosed(Universe)
ASSUME IF EmitLTS THEN PrintT(<<"UNIVERSE", ToJson(USeq)>>) ELSE TRUE
=============================================================================
