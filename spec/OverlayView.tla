---------------------------- MODULE OverlayView ----------------------------
(***************************************************************************)
(* LEVEL B, read side of OverlayFS (src/impls/overlay.rs): how the layers  *)
(* and the whiteout markers determine what a user sees.  Kept separate     *)
(* from the mutators (module Overlay) because it has no recursive          *)
(* definitions, so the proof system can reason about it for unbounded      *)
(* universes (spec/proofs/OverlayProofs.tla).                              *)
(***************************************************************************)
EXTENDS VfsPaths, Integers, TLC
CONSTANT Universe
INSTANCE VfsTree

\* ---- lookups (ls: sequence of layer trees, wo: set of marked paths)
HasIn(t, p) == t[p].k # "none"
FirstLayer(ls, p) == LET S == {i \in DOMAIN ls : HasIn(ls[i], p)} IN IF S = {} THEN 0 ELSE CHOOSE i \in S : \A j \in S : i <= j
Lookup(ls, wo, p) ==
  IF p \in wo /\ ~HasIn(ls[1], p) THEN Absent
  ELSE LET i == FirstLayer(ls, p) IN IF i = 0 THEN Absent ELSE ls[i][p]
StrictAncestors(p) == {SubSeq(p, 1, i) : i \in 1..(Len(p) - 1)}
ReadPath(ls, wo, p) ==
  IF p = Root THEN Dir
  ELSE IF \E a \in StrictAncestors(p) : Lookup(ls, wo, a).k # "dir" THEN Absent
  ELSE Lookup(ls, wo, p)
\* the tree a user of the overlay sees
View(ls, wo) == [p \in Universe |-> ReadPath(ls, wo, p)]
IsDirIn(t, p) == IF p = Root THEN TRUE ELSE t[p].k = "dir"
ListedKids(ls, wo, p) ==
  {q \in Universe : Parent(q) = p /\ (\E i \in DOMAIN ls : IsDirIn(ls[i], p) /\ HasIn(ls[i], q)) /\ ~(q \in wo /\ ~HasIn(ls[1], q))}

=============================================================================
