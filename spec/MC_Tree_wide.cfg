SPECIFICATION Spec
INVARIANT InvWellFormed
INVARIANT InvEmitState
CHECK_DEADLOCK FALSE
CONSTANTS
  USeq <- U_wide
  ContentSet <- C_set
  CreateArgs <- C_create
  AppendArgs <- C_append
  EmitLTS = FALSE
