SPECIFICATION Spec
INVARIANT InvCursor
INVARIANT InvEmitState
CHECK_DEADLOCK FALSE
CONSTANTS
  MaxLen = 3
  WriteArgs <- WA
  Offs <- OF
  ReadSizes <- RS
  EmitLTS = TRUE
