SPECIFICATION Spec
INVARIANT FaithfulView
CHECK_DEADLOCK FALSE
CONSTANTS
  USeq <- U7
  Universe <- UU
