---------------------------- MODULE MC_Handles ----------------------------
(* Bounded instance of the handle machines: every reachable (file, writer, reader) state with  *)
(* buffers up to MaxLen symbols, every enabled operation; emits the LTS for replay on handles   *)
(* obtained from every backend (spec -> code).                                                   *)
EXTENDS VfsHandles, Json
CONSTANTS MaxLen, WriteArgs, Offs, ReadSizes, EmitLTS
VARIABLE st

O(op, c, wh, off, n) == [op |-> op, c |-> c, wh |-> wh, off |-> off, n |-> n]
Ops == {O("open_create", <<>>, "", 0, 0), O("open_append", <<>>, "", 0, 0), O("open_read", <<>>, "", 0, 0),
        O("flush", <<>>, "", 0, 0), O("close_w", <<>>, "", 0, 0), O("close_r", <<>>, "", 0, 0), O("remove", <<>>, "", 0, 0),
        O("mkdir", <<>>, "", 0, 0), O("rmdir", <<>>, "", 0, 0), O("set_cr", <<>>, "", 0, 0), O("set_cr", <<>>, "", 0, 1)}
       \cup {O("write", c, "", 0, 0) : c \in WriteArgs}
       \cup {O(k, <<>>, wh, off, 0) : k \in {"seek_w", "seek_r"}, wh \in {"cur", "end"}, off \in Offs}
       \cup {O(k, <<>>, "start", off, 0) : k \in {"seek_w", "seek_r"}, off \in {x \in Offs : x >= 0}}    \* SeekFrom::Start is unsigned
       \cup {O("read", <<>>, "", 0, n) : n \in ReadSizes}
InBounds(s) == Len(s.w.buf) <= MaxLen /\ s.w.pos <= MaxLen + 1 /\ s.r.pos <= MaxLen + 1 /\ Len(s.file) <= MaxLen

Do(o) == LET r == Step(st, o) IN
         /\ Enabled(st, o) /\ InBounds(r.s)
         /\ st' = r.s
         /\ (IF EmitLTS THEN PrintT(<<"EDGE", ToJson([from |-> st, o |-> o, allowed |-> r.c, v |-> r.v, to |-> r.s])>>) ELSE TRUE)
Next == \E o \in Ops : Do(o)
Init == st = InitH
Spec == Init /\ [][Next]_st

\* sanity invariants of the contract itself
InvCursor == st.w.pos >= 0 /\ st.r.pos >= 0
InvAppendStartsAtEnd == TRUE
InvEmitState == IF EmitLTS THEN PrintT(<<"STATE", ToJson(st)>>) ELSE TRUE
=============================================================================
