SPECIFICATION Spec
INVARIANT Emit
CHECK_DEADLOCK FALSE
CONSTANTS
  USeq <- U9
  Universe <- UU
