---------------------------- MODULE Trace_Tree ----------------------------
(***************************************************************************)
(* Trace validation (code -> spec) against LEVEL A.                        *)
(* Consumes an ndjson trace written by the harness: segments that start    *)
(* with an "init" event (configuration, universe, first observation) and   *)
(* continue with "call" events (operation, outcome, full observation).     *)
(* Every conjunct of the contract is evaluated at every event.  A failing  *)
(* conjunct never blocks: it is printed as a VIOL line (with a signature   *)
(* computed from the abstract pre-state) and the model resynchronises from *)
(* the observation, so one TLC run judges a whole batch of segments.       *)
(* Within a segment only the first failing event is primary.               *)
(***************************************************************************)
EXTENDS VfsPaths, Integers, TLC, Json, IOUtils

Rec == ndJsonDeserialize(IOEnv.TRACE)
USeq == Rec[1].universe
INSTANCE VfsObs

VARIABLES l,        \* position in Rec
          world,    \* abstract tree (Level A state)
          cfg,      \* [kind, sup, ro] of the current segment
          tainted,  \* a conjunct failed earlier in this segment
          seg,      \* segment number
          lay,      \* overlay configurations: previous snapshot of the layers (raw entry lists)
          outs,     \* altroot configurations: previous snapshot of the underlying filesystem
          twinsync, \* altroot configurations: the twin world is still in the same state as the altroot world
          pwo       \* overlay configurations: marker set after the previous event (Level-B binding)
vars == <<l, world, cfg, tainted, seg, lay, outs, twinsync, pwo>>

\* ------------------------------------------------------------ overlay (C08/C09)
LayerNode(layer, p) ==
  LET S == {i \in DOMAIN layer : layer[i].p = p} IN
  IF S = {} THEN Absent
  ELSE LET x == layer[CHOOSE i \in S : TRUE] IN
       IF x.k = "dir" THEN Dir ELSE IF x.k = "file" THEN File(x.d) ELSE Absent
FirstWith(layers, p) ==
  LET S == {i \in DOMAIN layers : LayerNode(layers[i], p).k # "none"} IN
  IF S = {} THEN Absent ELSE LayerNode(layers[CHOOSE i \in S : \A j \in S : i <= j], p)
\* wo: paths for which the write layer carries a whiteout marker (a write layer that was used before:
\* C10, deletions persist).  A marker hides what the lower layers hold; an entry of the write layer
\* itself is newer than its marker and wins.
RECURSIVE MergedAt(_, _, _)
MergedAt(layers, wo, p) ==
  IF p = Root THEN Dir
  ELSE IF MergedAt(layers, wo, Parent(p)).k # "dir" THEN Absent
  ELSE IF p \in wo /\ LayerNode(layers[1], p).k = "none" THEN Absent
  ELSE FirstWith(layers, p)
\* C09: the union the overlay must present
Merge(layers, wo) == [p \in Universe |-> MergedAt(layers, wo, p)]

\* structure / bytes / creation+modification times of a layer (access time handled separately)
LayerCore(layer) == {[p |-> layer[i].p, k |-> layer[i].k, d |-> layer[i].d, cr |-> layer[i].cr, mo |-> layer[i].mo] : i \in DOMAIN layer}
LayerTimes(lt) == {[p |-> lt[i].p, cr |-> lt[i].cr, mo |-> lt[i].mo] : i \in DOMAIN lt}
LayerAc(lt, skip) == {[p |-> lt[i].p, ac |-> lt[i].ac] : i \in {j \in DOMAIN lt : lt[j].p \notin skip}}
MutatingMethods == {"create_dir", "create_file", "append_file", "remove_file", "remove_dir",
                    "set_creation_time", "set_modification_time", "set_access_time", "copy_file", "move_file", "move_dir"}
LowerUnchanged(e) ==
  /\ \A i \in DOMAIN e.layers : i > 1 => LayerCore(e.layers[i]) = LayerCore(lay[i])
  /\ \A i \in DOMAIN e.ltpre : i > 1 =>
        /\ LayerTimes(e.ltpre[i]) = LayerTimes(e.ltpost[i])
        /\ LET opened == {e.opened[j][2] : j \in {x \in DOMAIN e.opened : e.opened[x][1] = i}} IN
           LayerAc(e.ltpre[i], opened) = LayerAc(e.ltpost[i], opened)
  /\ \A j \in DOMAIN e.calls : e.calls[j][1] > 1 => e.calls[j][2] \notin MutatingMethods
ObserversPure(e) == \A j \in DOMAIN e.ocalls : e.ocalls[j][2] \notin MutatingMethods
\* where does the target live before the call (for signatures)
Where(p) ==
  IF lay = <<>> \/ p \notin Universe THEN "-"
  ELSE LET up == LayerNode(lay[1], p).k # "none"
           lo == \E i \in DOMAIN lay : i > 1 /\ LayerNode(lay[i], p).k # "none" IN
       IF up /\ lo THEN "both" ELSE IF up THEN "upper" ELSE IF lo THEN "lower" ELSE "none"
LowerKids(p) ==
  IF lay = <<>> THEN FALSE
  ELSE \E i \in DOMAIN lay : i > 1 /\ \E q \in Universe : Parent(q) = p /\ LayerNode(lay[i], q).k # "none"

\* ------------------------------------------------------------ Level-B binding of the overlay algorithm (DRIFT, never a verdict)
\* The recorded internal state (tree of the write layer, marker set) must be the one the Overlay module
\* computes from the recorded pre-state.  A mismatch means the transcription and the code have drifted
\* apart (e.g. after a refactoring); it is reported as DRIFT and does not affect any property.
O == INSTANCE Overlay
LayerTree(layer) == [p \in Universe |-> LayerNode(layer, p)]
OvlOps == {"create_dir", "create_file", "append_file", "remove_file", "remove_dir", "create_dir_all", "remove_dir_all"}
ClassAgrees(mc, oc) == IF mc = "ok" THEN oc = "ok" ELSE IF mc = "err" THEN oc \in ErrClasses ELSE oc = mc
Drifted(e) ==
  LET ls0 == [i \in DOMAIN lay |-> LayerTree(lay[i])]
      r == O!OApply([op |-> e.op, p |-> e.p, q |-> e.q, c |-> e.c, f |-> e.f], ls0, pwo) IN
  ~(ClassAgrees(r.c, e.res.c) /\ LayerTree(e.layers[1]) = r.up /\ {x \in Range(e.wo) : x \in Universe} = r.wo)

\* ------------------------------------------------------------ physical backing directory (C07)
DiskTree(disk) == [p \in Universe |-> LayerNode(disk, p)]
OnDisk(e) == DiskTree(e.disk) = TreeOfObs(e.obs)

\* ------------------------------------------------------------ altroot (C07)
\* observation with times and error paths stripped: what "same outcome, same effect" compares
EntCore(x) == [p |-> x.p, ex |-> x.ex, md |-> [c |-> x.md.c, k |-> x.md.k, len |-> x.md.len], isf |-> x.isf, isd |-> x.isd,
               ls |-> [c |-> x.ls.c, v |-> x.ls.v], op |-> x.op.c, rd |-> x.rd, rts |-> [c |-> x.rts.c, same |-> x.rts.same]]
ObsCore(o) == [ents |-> [i \in DOMAIN o.ents |-> EntCore(o.ents[i])],
               walk |-> [c |-> o.walk.c, nerr |-> o.walk.nerr, v |-> {o.walk.v[i] : i \in DOMAIN o.walk.v}]]
\* C02 compares classes only up to {ok, not-found, other error}, and not-found only where the properties
\* pin it (entry missing from an EXISTING DIRECTORY); message texts and I/O error kinds aside
Cls3(c, pin) == IF c \in {"ok", "skip"} THEN c ELSE IF pin /\ c = "notfound" THEN c ELSE "error"
EntAgree(x, pin) == [p |-> x.p, ex |-> x.ex, md |-> [c |-> Cls3(x.md.c, pin), k |-> x.md.k, len |-> x.md.len], isf |-> x.isf, isd |-> x.isd,
                     ls |-> [c |-> Cls3(x.ls.c, pin), v |-> x.ls.v], op |-> Cls3(x.op.c, pin), rd |-> [c |-> Cls3(x.rd.c, pin), v |-> x.rd.v],
                     rts |-> [c |-> Cls3(x.rts.c, pin), same |-> x.rts.same]]
ObsAgree(a, b) == LET t == TreeOfObs(a)
                      pin(x) == x.p = Root \/ IsDirAt(t, Parent(x.p)) IN
                  /\ [i \in DOMAIN a.ents |-> EntAgree(a.ents[i], pin(a.ents[i]))] = [i \in DOMAIN b.ents |-> EntAgree(b.ents[i], pin(a.ents[i]))]
                  /\ Cls3(a.walk.c, TRUE) = Cls3(b.walk.c, TRUE) /\ a.walk.nerr = b.walk.nerr /\ Range(a.walk.v) = Range(b.walk.v)
OutsideCore(snap, P) ==
  {[p |-> snap[i].p, k |-> snap[i].k, d |-> snap[i].d] : i \in {j \in DOMAIN snap : ~StrictPrefix(P, snap[j].p)}}
  \cup {[p |-> snap[i].p, mo |-> snap[i].mo] : i \in {j \in DOMAIN snap : ~Related(P, snap[j].p)}}
Confined(e, P) == \A i \in DOMAIN e.ucalls : IsPrefix(P, e.ucalls[i])

\* ------------------------------------------------------------ timestamps (C19)
\* "other timestamps unchanged" is only demanded of fields the configuration can set at all (a
\* copy made by an adapter cannot carry over a timestamp its target filesystem cannot set)
Keep(e, f) == f \in cfg.sup => e.post[f] = e.pre.p[f]
TimesOK(e, r) ==
  CASE e.op = "set_time" /\ e.res.c = "ok" ->
         /\ e.post.c = "ok"
         /\ e.post[e.f] = e.tv
         /\ \A f \in {"cr", "mo", "ac"} \ {e.f} : Keep(e, f)
    \* "where it does not [support the setter], the call reports not-supported and changes nothing": not even a
    \* field the configuration cannot set (an adapter that copies the entry up before it finds out would change it)
    [] e.op = "set_time" /\ e.res.c = "not_supported" ->
         (e.pre.p.c = "ok" /\ e.post.c = "ok") => \A f \in {"cr", "mo", "ac"} : e.post[f] = e.pre.p[f]
    [] e.op = "set_time" /\ e.res.c # "ok" ->
         (e.pre.p.c = "ok" /\ e.post.c = "ok") => \A f \in {"cr", "mo", "ac"} : Keep(e, f)
    \* appending preserves the creation time on the in-memory backend (and through adapters that
    \* serve the entry from it: altroot; overlay when the entry already lives in the upper layer)
    [] e.op = "append_file" /\ e.res.c = "ok" /\ "cr" \in cfg.sup /\ e.pre.p.c = "ok"
       /\ (cfg.kind \in {"mem", "alt"} \/ (cfg.kind = "ovl" /\ Where(e.p) \in {"upper", "both"})) -> e.post.cr = e.pre.p.cr
    [] OTHER -> TRUE

\* ------------------------------------------------------------ signatures
KindS(t, p) == IF p = Root THEN "root" ELSE IF p \in Universe THEN t[p].k ELSE "outside"
WantS(a) == IF a = AnyErr THEN <<"anyerr">> ELSE IF a = AnyErr \cup {"ok"} THEN <<"any">> ELSE
            IF a = {"ok"} THEN <<"ok">> ELSE IF a = {"notfound"} THEN <<"notfound">> ELSE
            IF a = {"file_exists"} THEN <<"file_exists">> ELSE IF a = {"dir_exists"} THEN <<"dir_exists">> ELSE
            IF a = {"not_supported"} THEN <<"not_supported">> ELSE <<"other">>
RelPos(x, p, q) == IF x = p THEN "self" ELSE IF x = q /\ q # <<>> THEN "dest"
                   ELSE IF StrictPrefix(p, x) THEN "below" ELSE IF StrictPrefix(x, p) THEN "above"
                   ELSE IF q # <<>> /\ StrictPrefix(q, x) THEN "below_dest" ELSE "elsewhere"
HasDest(op) == op \in {"copy_file", "move_file", "copy_dir", "move_dir"}
Sig(conj, e, r) ==
  [conj |-> conj, op |-> e.op, kind |-> cfg.kind, cfg |-> cfg.name,
   target |-> KindS(world, e.p), parent |-> KindS(world, Parent(e.p)),
   dest |-> IF HasDest(e.op) THEN KindS(world, e.q) ELSE "-",
   where |-> Where(e.p), lower_kids |-> LowerKids(e.p),
   got |-> e.res.c, want |-> WantS(r.allowed), regime |-> r.regime,
   diff |-> {RelPos(x, e.p, IF HasDest(e.op) THEN e.q ELSE <<>>) : x \in DiffPaths(e.obs, r.t)},
   f |-> e.f]
Report(kind, rec) == PrintT(<<kind, ToJson(rec)>>)

\* ------------------------------------------------------------ the judge
CallRec(e) == [op |-> e.op, p |-> e.p, q |-> e.q, c |-> e.c, f |-> e.f]
CfgRec == [sup |-> cfg.sup, ro |-> cfg.ro]
BadCall(e, r) ==
  LET o == e.obs
      q == IF HasDest(e.op) THEN e.q ELSE e.p
      matches == r.regime = "spec" /\ WellFormed(r.t) /\ ObsMatches(o, r.t) IN
  (IF e.res.c # "panic" /\ NoPanicObs(o) THEN {} ELSE {"nopanic"})
  \cup (IF e.res.c \in r.allowed THEN {} ELSE {"class"})
  \cup (IF e.op = "copy_dir" /\ e.res.c = "ok" /\ r.regime = "spec" /\ e.res.val # r.val THEN {"value"} ELSE {})
  \* when the record equals what a well-formed tree prescribes, WellFormedObs and ObserversAgree are
  \* consequences (checked once by TLC in MC_ObsLemma); they are evaluated whenever that is not the case
  \cup (IF matches THEN {}
        ELSE (IF r.regime = "spec" THEN {"effect"} ELSE {})
             \cup (IF WellFormedObs(o) THEN {} ELSE {"wellformed"})
             \cup (IF ObserversAgree(o) THEN {} ELSE {"observers"}))
  \cup (IF (e.res.c \in ErrClasses => EpOK(e.res.ep, e.p, q)) /\ ObsErrPathsOK(o) THEN {} ELSE {"errpath"})
  \cup (IF TimesOK(e, r) THEN {} ELSE {"times"})
  \* C07 (PhysicalFS clause) / C01: what std::fs finds below the backing directory is exactly what the
  \* filesystem shows - everything it created lies inside its root directory, and is really there
  \cup (IF "disk" \in DOMAIN e /\ ~OnDisk(e) THEN {"ondisk"} ELSE {})
  \cup (IF cfg.kind = "ovl" /\ "layers" \in DOMAIN e
          THEN (IF LowerUnchanged(e) THEN {} ELSE {"lower"}) \cup (IF ObserversPure(e) THEN {} ELSE {"pure"})
          ELSE {})
  \* C02: the lock-step partner (the same call on the other backend) agrees on success/failure, on the
  \* not-found and already-exists classes, and on the complete observable tree and bytes
  \cup (IF "other" \in DOMAIN e /\ twinsync /\ r.allowed # AnyErr \cup {"ok"} /\ e.op # "set_time"
          /\ ~(/\ (e.other.res.c = "ok") = (e.res.c = "ok")
               /\ (Cardinality(r.allowed) = 1 => e.other.res.c = e.res.c)       \* pinned classes: not-found, file-/dir-exists
               /\ e.other.res.val = e.res.val
               /\ ObsAgree(o, e.other.obs))
        THEN {"agree"} ELSE {})
  \cup (IF cfg.kind = "alt" /\ "twin" \in DOMAIN e
          THEN (IF Confined(e, cfg.prefix) THEN {} ELSE {"confined"})
               \cup (IF OutsideCore(e.outside, cfg.prefix) = outs THEN {} ELSE {"outside"})
               \* the twin comparison applies to EVERY call, also those Level A leaves unspecified (wrong-typed
               \* transfer sources): whatever the underlying filesystem does with P/q, the altroot does with q
               \cup (IF ~twinsync \/ (e.twin.res.c = e.res.c /\ e.twin.res.val = e.res.val /\ ObsCore(e.twin.obs) = ObsCore(o)) THEN {} ELSE {"twin"})
          ELSE {})

IsEv(k) == l <= Len(Rec) /\ Rec[l].ev = k

\* ------------------------------------------------------------ what was judged (vacuity guard)
\* TLC registers (single worker) count how often each part of the contract was actually applied;
\* the totals are printed with DONE and end up in the evidence.
CN == [init |-> 101, union |-> 102, view |-> 103, truth |-> 104, call |-> 105, spec_ok |-> 106, spec_fail |-> 107,
       pinned_class |-> 108, inv |-> 109, lower |-> 110, twin |-> 111, agree |-> 112, settime_ok |-> 113,
       level_b |-> 114, ondisk |-> 120, fault |-> 115, fault_err |-> 116, fault_ok |-> 117, err_labelled |-> 118, observer_fault |-> 119]
Bump(i) == TLCSet(i, TLCGet(i) + 1)
BumpIf(c, i) == IF c THEN Bump(i) ELSE TRUE
Counters == [x \in DOMAIN CN |-> TLCGet(CN[x])]

TrInit ==
  /\ l = 1 /\ world = EmptyTree /\ cfg = [kind |-> "-", name |-> "-", sup |-> {}, ro |-> FALSE, prefix |-> <<>>]
  /\ tainted = FALSE /\ seg = 0 /\ lay = <<>> /\ outs = {} /\ twinsync = FALSE /\ pwo = {}
  /\ \A x \in DOMAIN CN : TLCSet(CN[x], 0)

TrSegInit ==
  /\ IsEv("init")
  /\ LET e == Rec[l]
         o == e.obs
         w == TreeOfObs(o)
         isovl == e.kind \in {"ovl", "aovl"} /\ "layers" \in DOMAIN e
         wo0 == IF "wo" \in DOMAIN e THEN {x \in Range(e.wo) : x \in Universe} ELSE {}
         isalt == e.kind = "alt" /\ "twinobs" \in DOMAIN e
         bad == (IF NoPanicObs(o) THEN {} ELSE {"nopanic"})
                \cup (IF ObsMatches(o, w) THEN {} ELSE {"initmatch"})
                \cup (IF WellFormedObs(o) THEN {} ELSE {"wellformed"})
                \cup (IF ObserversAgree(o) THEN {} ELSE {"observers"})
                \cup (IF ObsErrPathsOK(o) THEN {} ELSE {"errpath"})
                \cup (IF isovl /\ ~ObsMatches(o, Merge(e.layers, wo0)) THEN {"union"} ELSE {})
                \cup (IF isalt /\ ObsCore(e.twinobs) # ObsCore(o) THEN {"view"} ELSE {})
                \* C18: the embedded view equals the observation of a physical filesystem on the same folder
                \cup (IF "truth" \in DOMAIN e /\ ~ObsMatches(o, TreeOfObs(e.truth)) THEN {"truth"} ELSE {})
                \cup (IF "disk" \in DOMAIN e /\ ~OnDisk(e) THEN {"ondisk"} ELSE {})
                \* the state was constructed through the public API (parents first): a creation that failed or
                \* panicked there is a violation of the creation contracts, not a tool problem
                \cup (IF "popfail" \in DOMAIN e /\ e.popfail # <<>> THEN {"populate"} ELSE {}) IN
     /\ world' = w
     /\ cfg' = [kind |-> e.kind, name |-> e.cfg, sup |-> Range(e.sup), ro |-> e.ro,
                prefix |-> IF "prefix" \in DOMAIN e THEN e.prefix ELSE <<>>]
     /\ lay' = IF isovl THEN e.layers ELSE <<>>
     /\ outs' = IF isalt THEN OutsideCore(e.outside, e.prefix) ELSE {}
     /\ twinsync' = ((isalt /\ ObsCore(e.twinobs) = ObsCore(o)) \/ ("other" \in DOMAIN e /\ ObsAgree(o, e.other.obs)))
     /\ pwo' = IF isovl /\ "wo" \in DOMAIN e THEN {x \in Range(e.wo) : x \in Universe} ELSE {}
     /\ tainted' = (bad # {})
     /\ seg' = seg + 1
     /\ Bump(CN.init) /\ BumpIf(isovl, CN.union) /\ BumpIf(isalt, CN.view) /\ BumpIf("truth" \in DOMAIN e, CN.truth)
     /\ IF bad = {} THEN TRUE
        ELSE Report("VIOL", [l |-> l, seg |-> seg + 1, secondary |-> FALSE, conjs |-> bad,
                             sig |-> [conj |-> "init", op |-> "init", kind |-> e.kind, cfg |-> e.cfg,
                                      diff |-> IF isovl THEN DiffPaths(o, Merge(e.layers, wo0)) ELSE DiffPaths(o, w),
                                      markers |-> wo0 # {}]])
  /\ l' = l + 1

TrCall ==
  /\ IsEv("call")
  /\ LET e == Rec[l]
         r == Apply(CallRec(e), world, CfgRec)
         bad == BadCall(e, r) IN
     /\ world' = TreeOfObs(e.obs)
     /\ lay' = IF cfg.kind = "ovl" /\ "layers" \in DOMAIN e THEN e.layers ELSE lay
     /\ outs' = IF cfg.kind = "alt" /\ "outside" \in DOMAIN e THEN OutsideCore(e.outside, cfg.prefix) ELSE outs
     \* once the two worlds have diverged (possible without a violation after an unspecified transfer)
     \* the twin comparison is suspended for the rest of the segment
     /\ twinsync' = (twinsync /\ ((cfg.kind = "alt" /\ "twin" \in DOMAIN e /\ ObsCore(e.twin.obs) = ObsCore(e.obs))
                                    \/ ("other" \in DOMAIN e /\ ObsAgree(e.obs, e.other.obs))))
     /\ pwo' = IF cfg.kind = "ovl" /\ "wo" \in DOMAIN e THEN {x \in Range(e.wo) : x \in Universe} ELSE pwo
     /\ (IF cfg.kind = "ovl" /\ "wo" \in DOMAIN e /\ lay # <<>> /\ e.op \in OvlOps /\ ~tainted /\ bad = {} /\ Drifted(e)
         THEN Report("DRIFT", [l |-> l, seg |-> seg, op |-> e.op, cfg |-> cfg.name, model |-> "Overlay"]) ELSE TRUE)
     /\ tainted' = (tainted \/ bad # {})
     /\ Bump(CN.call)
     /\ BumpIf(r.regime = "spec" /\ e.res.c = "ok" /\ "ok" \in r.allowed, CN.spec_ok)
     /\ BumpIf(r.regime = "spec" /\ "ok" \notin r.allowed, CN.spec_fail)
     /\ BumpIf(Cardinality(r.allowed) = 1 /\ "ok" \notin r.allowed, CN.pinned_class)
     /\ BumpIf(r.regime = "inv", CN.inv)
     /\ BumpIf(cfg.kind = "ovl" /\ "layers" \in DOMAIN e /\ Len(e.layers) > 1, CN.lower)
     /\ BumpIf(cfg.kind = "alt" /\ "twin" \in DOMAIN e /\ twinsync, CN.twin)
     /\ BumpIf("other" \in DOMAIN e /\ twinsync /\ r.allowed # AnyErr \cup {"ok"} /\ e.op # "set_time", CN.agree)
     /\ BumpIf(e.op = "set_time" /\ e.res.c = "ok", CN.settime_ok)
     /\ BumpIf(cfg.kind = "ovl" /\ "wo" \in DOMAIN e /\ lay # <<>> /\ e.op \in OvlOps /\ ~tainted /\ bad = {}, CN.level_b)
     /\ BumpIf(e.res.c \in ErrClasses, CN.err_labelled)
     /\ BumpIf("disk" \in DOMAIN e, CN.ondisk)
     /\ IF bad = {} THEN TRUE
        ELSE Report("VIOL", [l |-> l, seg |-> seg, secondary |-> tainted, conjs |-> bad,
                             sig |-> Sig(CHOOSE c \in bad : TRUE, e, r)])
  /\ UNCHANGED <<cfg, seg>>
  /\ l' = l + 1

\* ------------------------------------------------------------ fault injection (C20)
\* One event = one operation executed while the k-th call into a wrapped base filesystem returned an
\* I/O error (all k up to the number of calls of the fault-free run).  Success is only acceptable with
\* the full fault-free effect and value; a failing operation may leave a partial effect but the
\* namespace must stay a tree, nothing may panic, lower overlay layers stay untouched, and observers
\* never change anything.
ObsOps == {"exists", "is_dir", "is_file", "metadata", "read_dir", "walk_dir", "read_to_string"}
ObsValOK(e, t) ==
  LET k == Kind(t, e.p) IN
  CASE e.op = "exists"  -> e.res.v = <<k # "none">>
    [] e.op = "is_dir"  -> e.res.v = <<k = "dir">>
    [] e.op = "is_file" -> e.res.v = <<k = "file">>
    [] e.op = "metadata" -> k # "none" /\ e.res.v = <<k, Len(Data(t, e.p))>>
    [] e.op = "read_dir" -> k = "dir" /\ SeqIsSet(e.res.v, ChildNames(t, e.p))
    [] e.op = "walk_dir" -> k = "dir" /\ SeqIsSet(e.res.v, Desc(t, e.p))      \* complete and duplicate-free (an Err item makes the class an error)
    [] e.op = "read_to_string" -> k = "file" /\ Utf8(Data(t, e.p)) /\ e.res.v = Data(t, e.p)
    [] OTHER -> TRUE
TrFault ==
  /\ IsEv("fcall")
  /\ LET e == Rec[l]
         o == e.obs
         isobs == e.op \in ObsOps
         r == IF isobs THEN Ok(world) ELSE Apply(CallRec(e), world, CfgRec)
         bad == (IF e.res.c # "panic" /\ NoPanicObs(o) THEN {} ELSE {"nopanic"})
                \cup (IF e.res.c = "ok" /\ ~isobs /\ "ok" \notin r.allowed THEN {"fault_success"} ELSE {})
                \cup (IF e.res.c = "ok" /\ ~isobs /\ "ok" \in r.allowed /\ r.regime = "spec" /\ ~ObsMatches(o, r.t) THEN {"fault_partial"} ELSE {})
                \cup (IF e.res.c = "ok" /\ ~isobs /\ e.op = "copy_dir" /\ r.regime = "spec" /\ e.res.val # r.val THEN {"fault_value"} ELSE {})
                \cup (IF e.res.c = "ok" /\ isobs /\ ~ObsValOK(e, world) THEN {"fault_value"} ELSE {})
                \cup (IF isobs /\ ~ObsMatches(o, world) THEN {"fault_observer_effect"} ELSE {})
                \cup (IF WellFormedObs(o) THEN {} ELSE {"wellformed"})
                \* C10 under faults: a FAILED creation at an absent path may leave a partial result (nothing, or a file
                \* with a prefix of the bytes being written, or a directory) but never bytes it did not write - what a
                \* lower layer still holds below a whiteout marker stays hidden
                \cup (IF ~isobs /\ e.op = "create_file" /\ e.res.c \in ErrClasses /\ e.p \in Universe /\ Kind(world, e.p) = "none"
                        /\ Kind(TreeOfObs(o), e.p) = "file" /\ ~IsPrefix(Data(TreeOfObs(o), e.p), e.c) THEN {"fault_resurrect"} ELSE {})
                \cup (IF ~isobs /\ e.op \in {"create_dir", "create_dir_all"} /\ e.res.c \in ErrClasses /\ e.p \in Universe /\ Kind(world, e.p) = "none"
                        /\ Kind(TreeOfObs(o), e.p) = "file" THEN {"fault_resurrect"} ELSE {})
                \* C12 under faults: the error (also the Err item of walk_dir) names the caller's path
                \cup (IF e.res.c \in ErrClasses /\ ~EpOK(e.res.ep, e.p, IF HasDest(e.op) THEN e.q ELSE e.p) THEN {"errpath"} ELSE {})
                \* C08 under faults: whatever state the failed operation left, observers issue no mutating call
                \cup (IF "ocalls" \in DOMAIN e /\ ~ObserversPure(e) THEN {"pure"} ELSE {})
                \cup (IF cfg.kind = "ovl" /\ "layers" \in DOMAIN e /\ lay # <<>>
                        /\ ~(\A i \in DOMAIN e.layers : i > 1 => LayerCore(e.layers[i]) = LayerCore(lay[i])) THEN {"lower"} ELSE {}) IN
     /\ world' = TreeOfObs(o)
     /\ tainted' = TRUE           \* one faulted operation per segment
     /\ Bump(CN.fault) /\ BumpIf(e.res.c \in ErrClasses, CN.fault_err) /\ BumpIf(e.res.c = "ok", CN.fault_ok) /\ BumpIf(isobs, CN.observer_fault)
     /\ IF bad = {} THEN TRUE
        ELSE Report("VIOL", [l |-> l, seg |-> seg, secondary |-> tainted, conjs |-> bad,
                             sig |-> [conj |-> CHOOSE c \in bad : TRUE, op |-> e.op, kind |-> cfg.kind, cfg |-> cfg.name, fault |-> TRUE,
                                      target |-> KindS(world, e.p), method |-> e.method, got |-> e.res.c, k |-> e.k, n |-> e.n,
                                      regime |-> r.regime, where |-> Where(e.p)]])
  /\ UNCHANGED <<cfg, seg, lay, outs, twinsync, pwo>>
  /\ l' = l + 1

TrNext == TrSegInit \/ TrCall \/ TrFault
TrSpec == TrInit /\ [][TrNext]_vars

\* the whole trace must have been consumed (a malformed event is a tool error, not a violation)
Consumed ==
  IF TLCGet("stats").diameter - 1 = Len(Rec) THEN Report("DONE", [events |-> Len(Rec), judged |-> Counters])
  ELSE Report("STUCK", [at |-> TLCGet("stats").diameter, of |-> Len(Rec)]) /\ FALSE
=============================================================================
