-------------------------- MODULE Trace_WalkAsync --------------------------
(* Trace validation for the poll-schedule part of C15: every recorded manual polling of the real      *)
(* walk_dir stream (inner futures made Pending according to a plan) must deliver every descendant of  *)
(* the tree exactly once, a directory before anything inside it, no error item, and terminate.        *)
EXTENDS Integers, Sequences, FiniteSets, TLC, Json, IOUtils
Rec == ndJsonDeserialize(IOEnv.TRACE)
VARIABLE l
Report(kind, rec) == PrintT(<<kind, ToJson(rec)>>)
Range(f) == {f[i] : i \in DOMAIN f}
StrictPrefix(p, q) == Len(p) < Len(q) /\ SubSeq(q, 1, Len(p)) = p
Present(tree) == {tree[i].p : i \in {j \in DOMAIN tree : tree[j].k # "none"}}
Bad(e) ==
  IF e.fault = 0 THEN
    (IF e.c = "panic" THEN {"nopanic"} ELSE {})
    \cup (IF e.c = "ok" /\ e.ended /\ e.errs = 0 THEN {} ELSE {"terminates"})
    \cup (IF Range(e.items) = Present(e.tree) THEN {} ELSE {"complete"})
    \cup (IF Len(e.items) = Cardinality(Range(e.items)) THEN {} ELSE {"nodup"})
    \cup (IF \A i, j \in DOMAIN e.items : i < j => ~StrictPrefix(e.items[j], e.items[i]) THEN {} ELSE {"parentsfirst"})
    \cup (IF Range(e.items) = Range(e.ref) THEN {} ELSE {"same_as_unpended"})
  ELSE
    \* one metadata call of the walk failed: an Err item is yielded, nothing panics, the stream still ends,
    \* and what is yielded is still duplicate-free, in order, and part of the tree
    (IF e.c = "panic" THEN {"nopanic"} ELSE {})
    \cup (IF e.c = "ok" /\ e.ended /\ e.errs >= 1 THEN {} ELSE {"fault_terminates"})
    \cup (IF Range(e.items) \subseteq Present(e.tree) THEN {} ELSE {"complete"})
    \cup (IF Len(e.items) = Cardinality(Range(e.items)) THEN {} ELSE {"nodup"})
    \cup (IF \A i, j \in DOMAIN e.items : i < j => ~StrictPrefix(e.items[j], e.items[i]) THEN {} ELSE {"parentsfirst"})
\* what was judged (vacuity guard): TLC registers, single worker; totals are printed with DONE
CN == [walks |-> 601, with_pending |-> 602, fault_runs |-> 603, nonempty_trees |-> 604]
Bump(i) == TLCSet(i, TLCGet(i) + 1)
BumpIf(c, i) == IF c THEN Bump(i) ELSE TRUE
Counters == [x \in DOMAIN CN |-> TLCGet(CN[x])]
Next ==
  /\ l <= Len(Rec)
  /\ LET e == Rec[l]  bad == Bad(e) IN
     /\ Bump(CN.walks) /\ BumpIf(\E i \in DOMAIN e.plan : e.plan[i] > 0, CN.with_pending) /\ BumpIf(e.fault # 0, CN.fault_runs) /\ BumpIf(Present(e.tree) # {}, CN.nonempty_trees)
     /\ (IF bad = {} THEN TRUE
          ELSE Report("VIOL", [l |-> l, seg |-> l, secondary |-> FALSE, conjs |-> bad,
                          sig |-> [conj |-> CHOOSE c \in bad : TRUE, op |-> "walk_dir", kind |-> "awalk", cfg |-> e.cfg,
                                   pendings |-> Len(SelectSeq(e.plan, LAMBDA x : x > 0)), entries |-> Cardinality(Present(e.tree))]]))
  /\ l' = l + 1
Init == l = 1 /\ \A x \in DOMAIN CN : TLCSet(CN[x], 0)
TrSpec == Init /\ [][Next]_l
Consumed ==
  IF TLCGet("stats").diameter - 1 = Len(Rec) THEN Report("DONE", [events |-> Len(Rec), judged |-> Counters])
  ELSE Report("STUCK", [at |-> TLCGet("stats").diameter, of |-> Len(Rec)]) /\ FALSE
=============================================================================
