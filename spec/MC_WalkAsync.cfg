SPECIFICATION Spec
INVARIANT Inv
CHECK_DEADLOCK FALSE
CONSTANTS
  Trees <- MCTrees
  MaxPend = 3
