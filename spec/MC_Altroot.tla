----------------------------- MODULE MC_Altroot -----------------------------
EXTENDS Altroot
CONSTANTS ContentSet
Nodes == {Big!Absent, Big!Dir} \cup {Big!File(c) : c \in ContentSet}
Unders == {t \in [UBig -> Nodes] : Big!WellFormed(t) /\ t[P].k = "dir"}
VARIABLE under
Init == under \in Unders
Next == UNCHANGED under
Spec == Init /\ [][Next]_under
Cfg == [sup |-> {"cr", "mo", "ac"}, ro |-> FALSE]
E(op, p, q, c, f) == [op |-> op, p |-> p, q |-> q, c |-> c, f |-> f]
Calls == {E(op, p, <<>>, <<>>, "") : op \in {"create_dir", "remove_file", "remove_dir", "create_dir_all", "remove_dir_all"}, p \in USmall}
         \cup {E(op, p, <<>>, <<1>>, "") : op \in {"create_file", "append_file"}, p \in USmall}
         \cup {E("set_time", p, <<>>, <<>>, f) : p \in USmall, f \in {"cr", "mo", "ac"}}
         \cup {E(op, p, q, <<>>, "") : op \in {"copy_file", "move_file"}, p \in USmall, q \in USmall}
         \cup UNION {{E(op, p, q, <<>>, "") : op \in {"copy_dir", "move_dir"}, q \in {x \in USmall : ~IsPrefix(p, x) /\ Small!Fits(Sub(under), p, x)}} : p \in USmall}
Rerooting ==
  \A e \in Calls :
    LET a == Small!Apply(e, Sub(under), Cfg)          \* the operation on the altroot view
        b == Big!Apply(Tr(e), under, Cfg) IN          \* its twin on the underlying filesystem
    /\ a.allowed = b.allowed /\ a.regime = b.regime /\ a.val = b.val                 \* TwinEqual
    /\ Sub(b.t) = a.t                                                                \* ViewCommutes
    /\ \A x \in UBig : ~Inside(x) => b.t[x] = under[x]                               \* OutsideUnchanged
=============================================================================
