----------------------------- MODULE Trace_Lin -----------------------------
(***************************************************************************)
(* Trace validation for C16 / C17.  One event = one concurrent HISTORY the *)
(* cooperative scheduler produced on the real code: the program (calls per *)
(* thread), the result of every call, the final snapshot of the universe,  *)
(* and - measured on the same code - the outcome of every sequential order *)
(* of the same calls that respects each thread's program order.            *)
(*   linearizable : some sequential order yields the same results and the  *)
(*                  same final state                                  (C16) *)
(*   wellformed   : every present path hangs below a directory       (C16) *)
(*   allok, dirs  : every create_dir_all returned ok and every requested   *)
(*                  path and its ancestors are directories           (C17) *)
(*   nopanic, nodeadlock                                                   *)
(***************************************************************************)
EXTENDS Integers, Sequences, FiniteSets, TLC, Json, IOUtils
Rec == ndJsonDeserialize(IOEnv.TRACE)
VARIABLE l
Report(kind, rec) == PrintT(<<kind, ToJson(rec)>>)
Range(f) == {f[i] : i \in DOMAIN f}
Parent(p) == SubSeq(p, 1, Len(p) - 1)
Prefixes(p) == {SubSeq(p, 1, i) : i \in 1..Len(p)}

KindIn(fin, p) == IF p = <<>> THEN "dir"
                  ELSE LET S == {i \in DOMAIN fin : fin[i].p = p} IN IF S = {} THEN "none" ELSE fin[CHOOSE i \in S : TRUE].k
WellFormedFinal(fin) == \A i \in DOMAIN fin : fin[i].k \in {"dir", "file"} => KindIn(fin, Parent(fin[i].p)) = "dir"
Flat(rs) == UNION {Range(rs[t]) : t \in DOMAIN rs}
FinalCore(fin) == {[p |-> fin[i].p, k |-> fin[i].k, d |-> fin[i].d] : i \in DOMAIN fin}
Explained(e) == \E i \in DOMAIN e.seq : e.seq[i].results = e.results /\ FinalCore(e.seq[i].final) = FinalCore(e.final)
Calls(e) == UNION {Range(e.progs[t]) : t \in DOMAIN e.progs}
Targets(e) == {c.p : c \in {x \in Calls(e) : x.op = "create_dir_all"}}

Bad(e) ==
  (IF "panic" \in Flat(e.results) \/ \E i \in DOMAIN e.final : e.final[i].k = "panic" THEN {"nopanic"} ELSE {})
  \cup (IF e.stuck THEN {"nodeadlock"} ELSE {})
  \cup (IF e.stuck \/ WellFormedFinal(e.final) THEN {} ELSE {"wellformed"})
  \cup (IF e.prop = "C17" THEN
          (IF Flat(e.results) \subseteq {"ok"} THEN {} ELSE {"allok"})
          \cup (IF e.stuck \/ \A p \in Targets(e) : \A q \in Prefixes(p) : KindIn(e.final, q) = "dir" THEN {} ELSE {"dirs"})
        ELSE (IF e.stuck \/ Explained(e) THEN {} ELSE {"linearizable"}))

Next ==
  /\ l <= Len(Rec)
  /\ LET e == Rec[l]  bad == Bad(e) IN
     IF bad = {} THEN TRUE
     ELSE Report("VIOL", [l |-> l, seg |-> l, secondary |-> FALSE, conjs |-> bad,
                          sig |-> [conj |-> CHOOSE c \in bad : TRUE, op |-> "history", kind |-> "conc", cfg |-> e.cfg, prop |-> e.prop,
                                   ops |-> {c.op : c \in Calls(e)},
                                   threads |-> Len(e.progs), whiteout_prefix |-> e.pre_remove # <<>>,
                                   results |-> Flat(e.results)]])
  /\ l' = l + 1
Init == l = 1
TrSpec == Init /\ [][Next]_l
Consumed ==
  IF TLCGet("stats").diameter - 1 = Len(Rec) THEN Report("DONE", [events |-> Len(Rec)])
  ELSE Report("STUCK", [at |-> TLCGet("stats").diameter, of |-> Len(Rec)]) /\ FALSE
=============================================================================
