----------------------------- MODULE Trace_Lin -----------------------------
(***************************************************************************)
(* Trace validation for C16 / C17.  One event = one concurrent HISTORY the *)
(* cooperative scheduler produced on the real code: the program (calls per *)
(* thread), the result of every call, the final snapshot of the universe,  *)
(* and - measured on the same code - the outcome of every sequential order *)
(* of the same calls that respects each thread's program order.            *)
(*   linearizable : some sequential order yields the same results and the  *)
(*                  same final state                                  (C16) *)
(*   wellformed   : every present path hangs below a directory       (C16) *)
(*   allok, dirs  : every create_dir_all returned ok and every requested   *)
(*                  path and its ancestors are directories           (C17) *)
(*   nopanic, nodeadlock                                                   *)
(***************************************************************************)
EXTENDS Integers, Sequences, FiniteSets, TLC, Json, IOUtils
Rec == ndJsonDeserialize(IOEnv.TRACE)
VARIABLE l
Report(kind, rec) == PrintT(<<kind, ToJson(rec)>>)
Range(f) == {f[i] : i \in DOMAIN f}
Parent(p) == SubSeq(p, 1, Len(p) - 1)
Prefixes(p) == {SubSeq(p, 1, i) : i \in 1..Len(p)}

KindIn(fin, p) == IF p = <<>> THEN "dir"
                  ELSE LET S == {i \in DOMAIN fin : fin[i].p = p} IN IF S = {} THEN "none" ELSE fin[CHOOSE i \in S : TRUE].k
WellFormedFinal(fin) == \A i \in DOMAIN fin : fin[i].k \in {"dir", "file"} => KindIn(fin, Parent(fin[i].p)) = "dir"
\* per-call results are tuples: <<"ok">>, <<"err">>, <<"ok", TRUE>>, <<"ok", "dir", 0>>, <<"ok", <<names>>>>, <<"ok", <<bytes>>>>, <<"panic">>
Flat(rs) == UNION {{rs[t][i][1] : i \in DOMAIN rs[t]} : t \in DOMAIN rs}
FinalCore(fin) == {[p |-> fin[i].p, k |-> fin[i].k, d |-> fin[i].d] : i \in DOMAIN fin}
Explained(e) == \E i \in DOMAIN e.seq : e.seq[i].results = e.results /\ FinalCore(e.seq[i].final) = FinalCore(e.final)
Calls(e) == UNION {Range(e.progs[t]) : t \in DOMAIN e.progs}
Targets(e) == {c.p : c \in {x \in Calls(e) : x.op = "create_dir_all"}}

\* ---- Level-B binding of the MemoryFS model (DRIFT, never a verdict): the sequential outcomes the Conc module
\* computes for the program must be the ones measured on the code
TU == {Rec[1].universe[i] : i \in DOMAIN Rec[1].universe}
C == INSTANCE ConcOps WITH U <- TU
NodeOf(fin, p) == LET S == {i \in DOMAIN fin : fin[i].p = p} IN
                  IF S = {} THEN C!None ELSE LET x == fin[CHOOSE i \in S : TRUE] IN
                  IF x.k = "dir" THEN C!DirN ELSE IF x.k = "file" THEN C!FileN(x.d) ELSE C!None
InitMap(e) == [p \in TU |-> NodeOf(e.init, p)]
ResEq(m, h, op) ==      \* model result vs measured result
  IF op = "read_dir" /\ Len(m) = 2 /\ Len(h) = 2
  THEN h[1] = "ok" /\ {x[Len(x)] : x \in m[2]} = Range(h[2]) /\ Len(h[2]) = Cardinality(m[2])       \* set of child paths vs list of names
  ELSE m = h
ModelModelled(e) == e.cfg = "mem" /\ e.pre_remove = <<>> /\ \A c \in Calls(e) : c.op \in
   {"create_dir", "cf_open", "ap_open", "close", "remove_file", "remove_dir", "exists", "metadata", "read_dir", "read", "create_dir_all"}
SeqDrift(e) ==
  LET T == DOMAIN e.progs
      prog == [t \in T |-> e.progs[t]]
      M == C!SeqOutT(T, prog, [t \in T |-> 1], InitMap(e), [t \in T |-> C!NoH], [t \in T |-> <<>>])
      Match(o, s) == /\ \A t \in T : Len(o[1][t]) = Len(s.results[t]) /\ \A i \in DOMAIN o[1][t] : ResEq(o[1][t][i], s.results[t][i], prog[t][i].op)
                     /\ \A p \in TU : o[2][p] = NodeOf(s.final, p) IN
  ~(/\ \A i \in DOMAIN e.seq : \E o \in M : Match(o, e.seq[i])
    /\ \A o \in M : \E i \in DOMAIN e.seq : Match(o, e.seq[i]))

Bad(e) ==
  (IF "panic" \in Flat(e.results) \/ "harness-panic" \in Flat(e.results) \/ \E i \in DOMAIN e.final : e.final[i].k = "panic" THEN {"nopanic"} ELSE {})
  \cup (IF e.stuck THEN {"nodeadlock"} ELSE {})
  \cup (IF e.stuck \/ WellFormedFinal(e.final) THEN {} ELSE {"wellformed"})
  \cup (IF e.prop = "C17" THEN
          (IF Flat(e.results) \subseteq {"ok"} THEN {} ELSE {"allok"})
          \cup (IF e.stuck \/ \A p \in Targets(e) : \A q \in Prefixes(p) : KindIn(e.final, q) = "dir" THEN {} ELSE {"dirs"})
        ELSE (IF e.stuck \/ Explained(e) THEN {} ELSE {"linearizable"}))

\* what was judged (vacuity guard)
CN == [histories |-> 301, linearizability_checked |-> 302, c17_checked |-> 303, level_b_compared |-> 304, stuck |-> 305, with_whiteout_prefix |-> 306]
Bump(i) == TLCSet(i, TLCGet(i) + 1)
BumpIf(c, i) == IF c THEN Bump(i) ELSE TRUE
Counters == [x \in DOMAIN CN |-> TLCGet(CN[x])]
Next ==
  /\ l <= Len(Rec)
  /\ LET e == Rec[l]  bad == Bad(e) IN
     /\ Bump(CN.histories) /\ BumpIf(e.prop # "C17" /\ ~e.stuck, CN.linearizability_checked) /\ BumpIf(e.prop = "C17", CN.c17_checked)
     /\ BumpIf(ModelModelled(e) /\ ~e.stuck, CN.level_b_compared) /\ BumpIf(e.stuck, CN.stuck) /\ BumpIf(e.pre_remove # <<>>, CN.with_whiteout_prefix)
     /\ (IF ModelModelled(e) /\ ~e.stuck /\ SeqDrift(e) THEN Report("DRIFT", [l |-> l, model |-> "Conc", progs |-> e.progs]) ELSE TRUE)
     /\ (IF bad = {} THEN TRUE
         ELSE Report("VIOL", [l |-> l, seg |-> l, secondary |-> FALSE, conjs |-> bad,
                             sig |-> [conj |-> CHOOSE c \in bad : TRUE, op |-> "history", kind |-> "conc", cfg |-> e.cfg, prop |-> e.prop,
                                      ops |-> {c.op : c \in Calls(e)},
                                      threads |-> Len(e.progs), whiteout_prefix |-> e.pre_remove # <<>>,
                                      results |-> Flat(e.results)]]))
  /\ l' = l + 1
Init == l = 1 /\ \A x \in DOMAIN CN : TLCSet(CN[x], 0)
TrSpec == Init /\ [][Next]_l
Consumed ==
  IF TLCGet("stats").diameter - 1 = Len(Rec) THEN Report("DONE", [events |-> Len(Rec), judged |-> Counters])
  ELSE Report("STUCK", [at |-> TLCGet("stats").diameter, of |-> Len(Rec)]) /\ FALSE
=============================================================================
