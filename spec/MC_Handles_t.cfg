SPECIFICATION Spec
INVARIANT InvCursor
INVARIANT InvEmitState
CHECK_DEADLOCK FALSE
CONSTANTS
  MaxLen = 4
  WriteArgs <- WA
  Offs <- OF
  ReadSizes <- RS
  EmitLTS = FALSE
