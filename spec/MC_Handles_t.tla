---- MODULE MC_Handles_t ----
EXTENDS MC_Handles
WA == { <<1>>, <<2, 1>> }
OF == { -2, -1, 0, 1, 3 }
RS == { 0, 1, 2, 5 }
====
