SPECIFICATION Spec
INVARIANT Rerooting
CHECK_DEADLOCK FALSE
CONSTANTS
  UBig <- UB
  USmall <- US
  P <- PP
  ContentSet <- C2
