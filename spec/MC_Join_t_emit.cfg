SPECIFICATION Spec
INVARIANT Laws
CHECK_DEADLOCK FALSE
CONSTANTS
  Alpha <- MCAlpha
  MaxLen = 7
  EmitCases = TRUE
