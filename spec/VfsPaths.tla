---------------------------- MODULE VfsPaths ----------------------------
(* Paths as sequences of opaque names.  The root is the empty sequence.     *)
(* Level A (contract).  Shared by every other module.                       *)
EXTENDS Naturals, Sequences, FiniteSets

Root == <<>>
Parent(p) == IF p = <<>> THEN <<>> ELSE SubSeq(p, 1, Len(p) - 1)
Last(p) == p[Len(p)]
IsPrefix(p, q) == Len(p) <= Len(q) /\ SubSeq(q, 1, Len(p)) = p
StrictPrefix(p, q) == Len(p) < Len(q) /\ SubSeq(q, 1, Len(p)) = p
Related(p, q) == IsPrefix(p, q) \/ IsPrefix(q, p)
Prefixes(p) == {SubSeq(p, 1, i) : i \in 1..Len(p)}          \* non-root prefixes, p included
ReRoot(q, s, d) == d \o SubSeq(q, Len(s) + 1, Len(q))      \* q below s, moved below d
Range(f) == {f[i] : i \in DOMAIN f}
PrefixClosed(U) == \A p \in U : Len(p) > 1 => Parent(p) \in U
=============================================================================
