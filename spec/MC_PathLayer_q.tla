---- MODULE MC_PathLayer_q ----
EXTENDS MC_PathLayer
U_small == << <<"a">>, <<"b">>, <<"a","a">>, <<"a","b">>, <<"b","a">>, <<"b","b">> >>
UU == Range(U_small)
C_set == { <<>>, <<1>> }
====
