---------------------------- MODULE MC_ReadOnly ----------------------------
(* The read-only contract (C18) on the bounded universe: for every well-formed tree and every mutating  *)
(* operation with every argument, a read-only configuration refuses the call (never "ok", except the     *)
(* documented remove_dir_all on an absent path) and leaves the tree unchanged; the class is              *)
(* not_supported whenever the path layer's own pre-checks pass.                                           *)
EXTENDS VfsPaths, Integers, TLC
CONSTANTS USeq, ContentSet
U_small == << <<"a">>, <<"b">>, <<"a","a">>, <<"a","b">>, <<"b","a">>, <<"b","b">> >>
C_set == { <<>>, <<1>>, <<1,2>> }
Universe == Range(USeq)
INSTANCE VfsTree
Nodes == {Absent, Dir} \cup {File(c) : c \in ContentSet}
Trees == {t \in [Universe -> Nodes] : WellFormed(t)}
VARIABLE t
Init == t \in Trees
E(op, p, q, f) == [op |-> op, p |-> p, q |-> q, c |-> <<1>>, f |-> f]
Calls == {E(op, p, <<>>, "") : op \in {"create_dir", "create_file", "append_file", "remove_file", "remove_dir", "create_dir_all", "remove_dir_all"}, p \in Universe}
         \cup {E("set_time", p, <<>>, f) : p \in Universe, f \in {"cr", "mo", "ac"}}
         \cup {E(op, p, q, "") : op \in {"copy_file", "move_file", "copy_dir", "move_dir"}, p \in Universe, q \in Universe}
RO == [sup |-> {}, ro |-> TRUE]
Next == \E e \in Calls : LET r == Apply(e, t, RO) IN t' = r.t
Spec == Init /\ [][Next]_t
Refused == \A e \in Calls : LET r == Apply(e, t, RO) IN
             /\ r.t = t /\ r.regime = "spec"
             /\ ("ok" \in r.allowed => e.op = "remove_dir_all" /\ t[e.p].k = "none")
             /\ (e.op \in {"append_file", "remove_file", "remove_dir", "set_time", "create_dir_all"} => r.allowed = {"not_supported"})
=============================================================================
