SPECIFICATION FairSpec
PROPERTY Terminates
INVARIANT Linearizable
INVARIANT WellFormed
CHECK_DEADLOCK FALSE
CONSTANTS
  Threads <- MThreads
  Progs <- MProgs
  Inits <- MInits
  U <- MU
