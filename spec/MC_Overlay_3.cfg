SPECIFICATION Spec
INVARIANT Refines
INVARIANT ViewWellFormed
INVARIANT DeletedStaysDeleted
INVARIANT ListingAgrees
CHECK_DEADLOCK FALSE
CONSTANTS
  USeq <- U3
  Universe <- UU
  ContentSet <- C2
  NLayers = 3
