----------------------------- MODULE MC_Overlay -----------------------------
(* Refinement of Level A by the overlay algorithm (Level B) for EVERY initial content of the layers.   *)
(* State: the layer trees (only layer 1 ever changes) and the marker set.  Every transition compares    *)
(* the algorithm's outcome class and the new view with what Level A prescribes for the old view.        *)
EXTENDS Overlay
CONSTANTS USeq, ContentSet, NLayers
VARIABLES ls, wo, dev
vars == <<ls, wo, dev>>

Nodes == {Absent, Dir} \cup {File(c) : c \in ContentSet}
Trees == {t \in [Universe -> Nodes] : WellFormed(t)}
Init == ls \in [1..NLayers -> Trees] /\ wo = {} /\ dev = <<>>

Cfg == [sup |-> {}, ro |-> FALSE]
E(op, p, c) == [op |-> op, p |-> p, q |-> <<>>, c |-> c, f |-> ""]
Calls == {E(op, p, <<>>) : op \in {"create_dir", "remove_file", "remove_dir", "create_dir_all", "remove_dir_all"}, p \in Universe}
         \cup {E(op, p, <<1>>) : op \in {"create_file", "append_file"}, p \in Universe}
InBounds(t) == \A p \in Universe : t[p].k = "file" => t[p].d \in ContentSet
\* the one recorded deviation (known finding KF-ovl-remove_file-lower-dir) is not generated
Known(e, v) == e.op = "remove_file" /\ v[e.p].k = "dir" /\ ~HasIn(ls[1], e.p)
\* remove_dir_all reaches remove_file only for files, so it never takes the known deviation
Step(e) ==
  LET v == View(ls, wo)
      r == OApply(e, ls, wo)
      a == Apply(e, v, Cfg)
      ls2 == [ls EXCEPT ![1] = r.up]
      v2 == View(ls2, r.wo)
      good == /\ r.c \in a.allowed
              /\ (a.regime = "spec" => v2 = a.t) IN
  /\ ~Known(e, v)
  /\ InBounds(a.t) /\ InBounds(r.up)
  /\ ls' = ls2 /\ wo' = r.wo
  /\ dev' = IF good THEN <<>> ELSE <<e.op, e.p, r.c, a.allowed>>
Next == dev = <<>> /\ \E e \in Calls : Step(e)
Spec == Init /\ [][Next]_vars

\* C09 / C01: the overlay algorithm refines the contract from every initial content
Refines == dev = <<>>
\* C03 on the view, and the write layer itself stays a tree
ViewWellFormed == WellFormed(View(ls, wo)) /\ WellFormed(ls[1])
\* C10: a marked path without a write-layer entry is absent from the view
DeletedStaysDeleted == \A p \in wo : ~HasIn(ls[1], p) => View(ls, wo)[p].k = "none"
\* C05 at model level: the listing of a visible directory is exactly its visible children
ListingAgrees == \A p \in Universe \cup {Root} : ReadPath(ls, wo, p).k = "dir" =>
                   ListedKids(ls, wo, p) = {q \in Universe : Parent(q) = p /\ View(ls, wo)[q].k # "none"}
=============================================================================
