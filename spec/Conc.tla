-------------------------------- MODULE Conc --------------------------------
(* The concurrent system over the micro-steps of ConcOps (see there): N threads, one micro-step of one *)
(* thread per transition; C16 / C17 as invariants of the terminal states.                               *)
EXTENDS ConcOps
CONSTANTS Threads, Progs, Inits      \* Inits: set of initial maps, Progs: set of [Threads -> Seq(call)]
SeqOut(prog, idx, f, hs, res) == SeqOutT(Threads, prog, idx, f, hs, res)

\* ---- the concurrent system
VARIABLES prog, f0, files, idx, step, res, hs
vars == <<prog, f0, files, idx, step, res, hs>>
Init == /\ prog \in Progs /\ f0 \in Inits /\ files = f0
        /\ idx = [t \in Threads |-> 1] /\ step = [t \in Threads |-> 0] /\ res = [t \in Threads |-> <<>>] /\ hs = [t \in Threads |-> NoH]
Move(t) ==
  /\ idx[t] <= Len(prog[t])
  /\ LET m == Micro(prog[t][idx[t]], step[t], files, hs[t]) IN
     IF m.done
     THEN LET last == idx[t] = Len(prog[t]) IN
          /\ idx' = [idx EXCEPT ![t] = @ + 1] /\ step' = [step EXCEPT ![t] = 0] /\ res' = [res EXCEPT ![t] = Append(@, m.res)]
          \* the implicit drop of a handle left open happens in a later step of its own (DropT)
          /\ files' = m.f /\ hs' = [hs EXCEPT ![t] = m.h]
     ELSE /\ files' = m.f /\ hs' = [hs EXCEPT ![t] = m.h] /\ idx' = idx /\ step' = [step EXCEPT ![t] = @ + 1] /\ res' = res
  /\ UNCHANGED <<prog, f0>>
DropT(t) ==
  /\ idx[t] > Len(prog[t]) /\ hs[t].open
  /\ files' = DropStep(files, hs[t]) /\ hs' = [hs EXCEPT ![t] = NoH]
  /\ UNCHANGED <<prog, f0, idx, step, res>>
Next == \E t \in Threads : Move(t) \/ DropT(t)
Spec == Init /\ [][Next]_vars
Done == \A t \in Threads : idx[t] > Len(prog[t]) /\ ~hs[t].open
\* liveness of the model: with every thread scheduled fairly every program finishes and every handle is
\* dropped (no step of one thread can disable another thread for ever; the code-level counterpart is the
\* `nodeadlock` conjunct of Trace_Lin)
FairSpec == Spec /\ \A t \in Threads : WF_vars(Move(t) \/ DropT(t))
Terminates == <>Done

\* C16
Linearizable ==
  Done => \E o \in SeqOut(prog, [t \in Threads |-> 1], f0, [t \in Threads |-> NoH], [t \in Threads |-> <<>>]) : o[1] = res /\ o[2] = files
WellFormed == \A p \in U : files[p].k # "none" => Kind(files, Par(p)) = "dir"
\* C17: concurrent create_dir_all calls all succeed and leave every requested prefix a directory
AllCalls == UNION {{prog[t][i] : i \in 1..Len(prog[t])} : t \in Threads}
CdaTargets == {c.p : c \in {x \in AllCalls : x.op = "create_dir_all"}}
AllCreateDirAllSucceed ==
  Done => /\ \A t \in Threads : \A i \in 1..Len(res[t]) : res[t][i] = Ok
          /\ \A p \in CdaTargets : \A k \in 1..Len(p) : files[SubSeq(p, 1, k)].k = "dir"
WFInits == \A f \in Inits : \A p \in U : f[p].k # "none" => Kind(f, Par(p)) = "dir"
=============================================================================
