------------------------------ MODULE Embedded ------------------------------
(***************************************************************************)
(* LEVEL B: EmbeddedFS::new (src/impls/embedded.rs): derivation of the     *)
(* directory map from the embedded file list by the rsplit_once loop, and  *)
(* the observers built on it.  MC_Embedded checks, for EVERY prefix-free   *)
(* file list over the universe, that the derived structure is exactly the  *)
(* Level-A tree of the files and the directories their paths imply (C18).  *)
(***************************************************************************)
EXTENDS VfsPaths, Integers, TLC
CONSTANT Universe
INSTANCE VfsTree

PrefixFree(F) == \A f, g \in F : f # g => ~IsPrefix(f, g)
\* the loop: for every file, every (prefix, suffix) split adds suffix to the children of prefix; the first component goes to the root
DirMap(F) ==
  LET pairs == UNION {{<<SubSeq(f, 1, k - 1), f[k]>> : k \in 1..Len(f)} : f \in F}
      dirs == {pr[1] : pr \in pairs} IN
  [d \in dirs |-> {pr[2] : pr \in {x \in pairs : x[1] = d}}]
\* what the folder means at Level A
Implied(F) == [p \in Universe |-> IF p \in F THEN File(<<>>) ELSE IF \E f \in F : StrictPrefix(p, f) THEN Dir ELSE Absent]

\* observers as the code computes them
EExists(F, p) == p \in F \/ p \in DOMAIN DirMap(F) \/ p = Root
EIsDir(F, p) == p \notin F /\ (p \in DOMAIN DirMap(F) \/ p = Root)
EReadDir(F, p) == IF p \in DOMAIN DirMap(F) THEN [c |-> "ok", v |-> DirMap(F)[p]]
                  ELSE IF p \in F THEN [c |-> "err", v |-> {}] ELSE [c |-> "notfound", v |-> {}]
=============================================================================
