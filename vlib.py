"""Shared machinery of /verif/check: builds, TLC runs, trace validation, classification, evidence.
python3 stdlib only."""
import hashlib, json, os, re, shutil, subprocess, sys, time, glob, random
from concurrent.futures import ThreadPoolExecutor

V = os.environ.get('VERIF_HOME', os.path.dirname(os.path.abspath(__file__)))
REPO = os.environ.get('VERIF_REPO', '/repo')
WORK = V + '/work'
SPEC = V + '/spec'
HARNESS = V + '/harness'
BIN = HARNESS + '/target/debug/vfs-verif-harness'
CP = '/opt/veriftools/tla/tla2tools.jar:/opt/veriftools/tla/CommunityModules-deps.jar'
NPROC = 16


class ToolError(Exception):
    pass


def log(*a):
    print('[check]', *a, file=sys.stderr, flush=True)


def sh(cmd, timeout=3600, cwd=None, env=None, check=False):
    e = dict(os.environ)
    e.update({'CARGO_NET_OFFLINE': 'true'})
    if env:
        e.update(env)
    p = subprocess.run(cmd, shell=isinstance(cmd, str), cwd=cwd, env=e, timeout=timeout,
                       stdout=subprocess.PIPE, stderr=subprocess.STDOUT, text=True, errors='replace')
    if check and p.returncode != 0:
        raise ToolError('command failed (%d): %s\n%s' % (p.returncode, cmd, p.stdout[-3000:]))
    return p.returncode, p.stdout


def file_hash(paths):
    h = hashlib.sha256()
    for p in sorted(paths):
        h.update(p.encode())
        try:
            with open(p, 'rb') as f:
                h.update(f.read())
        except OSError:
            h.update(b'<missing>')
    return h.hexdigest()[:16]


def tree_files(root, exts=None, skip=('target', '.git')):
    out = []
    for d, dirs, files in os.walk(root):
        dirs[:] = [x for x in dirs if x not in skip]
        for f in files:
            if exts is None or os.path.splitext(f)[1] in exts:
                out.append(os.path.join(d, f))
    return out


def repo_hash():
    return file_hash(tree_files(REPO + '/src') + tree_files(REPO + '/test') + [REPO + '/Cargo.toml', REPO + '/Cargo.lock'])


def spec_hash():
    return file_hash(tree_files(SPEC, exts={'.tla', '.cfg'}))


def module_hash(module, cfgs=()):
    """hash of a TLA+ module, the modules it EXTENDS / INSTANCEs (transitively, within spec/) and the given cfg files"""
    seen = set()
    todo = [module]
    while todo:
        m = todo.pop()
        f = '%s/%s.tla' % (SPEC, m)
        if m in seen or not os.path.exists(f):
            continue
        seen.add(m)
        txt = open(f).read()
        for mm in re.finditer(r'EXTENDS\s+([^\n]+)', txt):
            todo += [x.strip() for x in mm.group(1).split(',')]
        for mm in re.finditer(r'INSTANCE\s+(\w+)', txt):
            todo.append(mm.group(1))
    return file_hash(['%s/%s.tla' % (SPEC, m) for m in seen] + ['%s/%s.cfg' % (SPEC, c) for c in cfgs])


def harness_hash():
    return file_hash(tree_files(HARNESS + '/src') + tree_files(HARNESS + '/fixtures') + [HARNESS + '/Cargo.toml', V + '/vlib.py', V + '/groups.py', V + '/check', V + '/known_findings.json'])


_built = False


def build_harness():
    """(re)build the harness against /repo's current working tree, hooks enabled"""
    global _built
    if _built:
        return
    t = time.time()
    rc, out = sh('cargo build --offline --features hooks 2>&1', cwd=HARNESS, timeout=1800)
    if rc != 0:
        raise ToolError('harness build failed:\n' + out[-4000:])
    _built = True
    log('harness built in %.1fs' % (time.time() - t))


def tlc(module, cfg, workers=8, metadir=None, timeout=1800, env=None, extra=''):
    md = metadir or (WORK + '/tlc/mc-%d-%d' % (os.getpid(), random.randrange(1 << 30)))
    os.makedirs(WORK + '/tlc', exist_ok=True)
    gc = '-XX:+UseParallelGC' if workers != 1 else '-XX:+UseSerialGC'
    cmd = ('timeout %d java %s -Xss1g -Xmx8g -cp %s tlc2.TLC -workers %s -metadir %s -cleanup -noGenerateSpecTE %s -config %s %s'
           % (timeout, gc, CP, workers, md, extra, cfg, module))
    rc, out = sh(cmd, cwd=SPEC, timeout=timeout + 30, env=env)
    shutil.rmtree(md, ignore_errors=True)
    return rc, out


def mc_stats(out):
    m = re.search(r'(\d+) states generated, (\d+) distinct states found', out)
    if not m:
        return None
    return {'transitions': int(m.group(1)), 'states': int(m.group(2))}


def run_mc(module, cfg, workers=8, timeout=1800, cache=True):
    """model-check an MC_* instance; cached by spec hash (the result depends only on the specification)"""
    key = '%s-%s-%s' % (module, cfg, module_hash(module, [cfg]))
    cf = WORK + '/mc/' + key + '.json'
    os.makedirs(WORK + '/mc', exist_ok=True)
    if cache and os.path.exists(cf):
        r = json.load(open(cf))
        r['cached'] = True
        return r
    t = time.time()
    rc, out = tlc(module + '.tla', cfg + '.cfg', workers=workers, timeout=timeout, extra='-coverage 1')
    st = mc_stats(out)
    ok = rc == 0 and 'No error has been found' in out and st is not None
    r = {'module': module, 'cfg': cfg, 'ok': ok, 'wall_s': round(time.time() - t, 1), 'cached': False}
    if st:
        r.update(st)
    if not ok:
        r['tail'] = out[-3000:]
    # per-action coverage (vacuity guard): "<Action line ..>: distinct:total"
    cov = {}
    for m in re.finditer(r'<(\w+) line \d+, col \d+ to line \d+, col \d+ of module (\w+)>: (\d+):(\d+)', out):
        cov[m.group(1)] = cov.get(m.group(1), 0) + int(m.group(4))
    r['action_coverage'] = cov
    if ok:
        json.dump(r, open(cf, 'w'))
    return r


def run_proofs(timeout=1500):
    """tlapm on spec/proofs (unbounded Level-A theorems).  Informational: a proof that does not go through
    says something about the specification or the provers, never about the code, so it cannot change a verdict."""
    files = sorted(glob.glob(SPEC + '/proofs/*.tla')) + [SPEC + '/VfsTree.tla', SPEC + '/VfsPaths.tla', SPEC + '/OverlayView.tla']
    key = file_hash(files)
    cf = WORK + '/proofs/' + key + '.json'
    os.makedirs(WORK + '/proofs', exist_ok=True)
    if os.path.exists(cf):
        r = json.load(open(cf))
        r['cached'] = True
        return r
    t = time.time()
    res = {'modules': {}, 'cached': False}
    for mod in ('PathLemmas', 'VfsTreeProofs', 'OverlayProofs'):
        rc, out = sh('timeout %d tlapm --threads 8 --cache-dir %s/proofs/cache -I .. %s.tla 2>&1' % (timeout, WORK, mod), cwd=SPEC + '/proofs', timeout=timeout + 60)
        m = re.search(r'All (\d+) obligations? proved', out)
        f = re.search(r'(\d+)/(\d+) obligations failed', out)
        res['modules'][mod] = {'proved': int(m.group(1)) if m else (int(f.group(2)) - int(f.group(1)) if f else 0),
                               'obligations': int(m.group(1)) if m else (int(f.group(2)) if f else 0), 'ok': bool(m)}
    res['ok'] = all(v['ok'] for v in res['modules'].values())
    res['wall_s'] = round(time.time() - t, 1)
    res['theorems'] = 'for ANY universe closed under Parent and ANY well-formed tree: every Level-A operation keeps the tree well-formed (ApplyWF, C03) and changes only its frame (FramePrimitives, FrameComposites, FailUnchanged, C01); for ANY number and content of layers and ANY marker set the overlay view is well-formed (ViewWellFormedAlways), nothing is visible below an invisible path (NothingBelowInvisible), a successful remove_file/remove_dir hides the path whatever the lower layers hold (RemoveFileHides, RemoveDirHides) a re-created directory starts empty (FreshAfterRecreate) and a re-created file holds exactly the newly written bytes (FreshFileAfterRecreate) - C03/C09/C10'
    if res['ok']:
        json.dump(res, open(cf, 'w'))
    return res


def ensure_lts(module, cfg, tags=('EDGE', 'STATE', 'UNIVERSE')):
    """emit the labelled transition system of an MC_* instance (cached by spec hash)"""
    key = '%s-%s-%s' % (module, cfg, module_hash(module, [cfg]))
    f = WORK + '/lts/' + key + '.out'
    os.makedirs(WORK + '/lts', exist_ok=True)
    if os.path.exists(f) and os.path.getsize(f) > 0:
        return f
    t = time.time()
    rc, out = tlc(module + '.tla', cfg + '.cfg', workers=1, timeout=3000)
    if rc != 0 or 'No error has been found' not in out:
        raise ToolError('LTS emission failed for %s/%s:\n%s' % (module, cfg, out[-3000:]))
    with open(f + '.tmp', 'w') as g:
        for line in out.splitlines():
            if any(line.startswith('<<"%s"' % t) for t in tags):
                g.write(line + '\n')
    os.rename(f + '.tmp', f)
    log('LTS %s/%s emitted in %.1fs' % (module, cfg, time.time() - t))
    return f


def harness(args, timeout=3600):
    rc, out = sh([BIN] + [str(a) for a in args], timeout=timeout, env={'VERIF_TMP': WORK + '/tmp'})
    if rc != 0:
        raise ToolError('harness %s failed rc=%d:\n%s' % (args[:4], rc, out[-3000:]))
    # last line that parses as JSON is the summary
    for line in reversed(out.strip().splitlines()):
        try:
            return json.loads(line)
        except ValueError:
            continue
    raise ToolError('harness printed no summary: ' + out[-500:])


def _tv_one(args):
    trace, spec = args
    out = trace + '.out'
    md = WORK + '/tlc/tv-%d-%d' % (os.getpid(), random.randrange(1 << 30))
    cmd = ('timeout 1200 java -XX:+UseSerialGC -Xss1g -Xmx3g -Dtlc2.tool.queue.IStateQueue=StateDeque -cp %s tlc2.TLC '
           '-workers 1 -metadir %s -cleanup -noGenerateSpecTE -config %s.cfg %s.tla > %s 2>&1' % (CP, md, spec, spec, out))
    rc = subprocess.call(cmd, shell=True, cwd=SPEC, env=dict(os.environ, TRACE=trace))
    shutil.rmtree(md, ignore_errors=True)
    return trace, out, rc


def parse_tlc_records(outfile, tags=('VIOL', 'DONE', 'STUCK', 'DRIFT')):
    recs = []
    for line in open(outfile, errors='replace'):
        if not line.startswith('<<"'):
            continue
        tag = line[3:line.index('"', 3)]
        if tag not in tags:
            continue
        try:
            i = line.index(', "') + 2
            recs.append((tag, json.loads(json.loads(line[i:line.rindex('"') + 1]))))
        except ValueError:
            pass
    return recs


def validate_traces(trace_dir, spec='Trace_Tree', procs=NPROC):
    """run the trace specification on every shard; returns (violations, stats). A shard that is not
    consumed completely is a tool error, never a violation."""
    shards = sorted(glob.glob(trace_dir + '/*.ndjson'))
    os.makedirs(WORK + '/tlc', exist_ok=True)
    viols = []
    events = 0
    drift = 0
    judged = {}
    t = time.time()
    with ThreadPoolExecutor(max_workers=procs) as ex:
        for trace, out, rc in ex.map(_tv_one, [(s, spec) for s in shards]):
            recs = parse_tlc_records(out)
            done = [r for tag, r in recs if tag == 'DONE']
            if not done:
                tail = open(out, errors='replace').read()[-2500:]
                raise ToolError('trace validation did not consume %s (rc=%d):\n%s' % (trace, rc, tail))
            events += done[0]['events']
            for k, n in (done[0].get('judged') or {}).items():
                judged[k] = judged.get(k, 0) + n
            for tag, r in recs:
                if tag == 'VIOL':
                    r['trace'] = trace
                    viols.append(r)
                elif tag == 'DRIFT':
                    drift += 1
    return viols, {'shards': len(shards), 'events': events, 'tlc_wall_s': round(time.time() - t, 1), 'drift': drift, 'judged': judged}


# --------------------------------------------------------------- classification
def props_of(conj, sig, group):
    """DESIGN 4.2: which properties a failing conjunct belongs to"""
    kind = sig.get('kind', '-')
    op = sig.get('op', '-')
    ps = set()
    if kind in ('hostiledir', 'rootops', 'ahostile'):
        ps.add('C12' if conj == 'occupied' else 'C07' if conj == 'twinroot' else 'C13')
        return ps
    if kind == 'confine':
        ps.add('C07')
        if conj == 'nopanic':
            ps.add('C13')
        return ps
    if kind == 'twowriters':
        ps.add('C15')
        if conj == 'nopanic':
            ps.add('C13')
        return ps
    if kind == 'awalk':
        ps.add('C15')
        if conj == 'nopanic':
            ps.add('C13')
        return ps
    if kind in ('amem', 'aphys', 'aalt', 'aovl'):
        # the async twins are judged by the same Level A: a disagreement is (also) a C15 violation
        base = dict(sig, kind=kind[1:])
        return (props_of(conj, base, group) - {'C02'}) | {'C15'}
    if sig.get('fault'):
        ps.add('C20')
        if conj == 'fault_resurrect':
            ps.add('C10')
        if conj == 'nopanic':
            ps.add('C13')
        if conj in ('lower', 'pure'):
            ps.add('C08')
        if conj == 'wellformed':
            ps.add('C03')
        if conj == 'errpath':
            ps.add('C12')
        return ps
    if kind == 'conc':
        ps.add(sig.get('prop', 'C16')[:3])
        if conj == 'wellformed':
            ps.add('C03')      # an orphan is an orphan, whichever schedule produced it
        if conj == 'nopanic':
            ps.add('C13')
        return ps
    if kind == 'x2':
        ps.add('C11')
        if conj == 'nopanic':
            ps.add('C13')
        if conj == 'wellformed':
            ps.add('C03')
        if conj == 'observers':
            ps.add('C05')
        if conj == 'errpath':
            ps.add('C12')
        if conj == 'effect':
            ps.add('C04')
        return ps
    if kind == 'handles':
        ps.add('C14')
        if str(sig.get('cfg', '')).startswith('async:'):
            ps.add('C15')
        if sig.get('cfg') in ('mem', 'phys'):
            ps.add('C02')     # both backends are judged by the same cursor machines
        if conj == 'nopanic':
            ps.add('C13')
        if conj == 'published' or op in ('write', 'flush', 'close_w', 'seek_w', 'open_append', 'open_create'):
            ps.add('C04')
        if conj == 'times' or op == 'set_cr':
            ps.add('C19')
        if conj == 'published' and sig.get('detached'):
            ps.add('C03')
            ps.add('C05')     # a stale handle that replaces what is at its path leaves observers that disagree
        return ps
    if kind == 'join':
        ps.add('C06')
        if conj == 'nopanic':
            ps.add('C13')
        if conj in ('errpath', 'rejects'):
            ps.add('C12')
        return ps
    if kind == 'emb':
        ps.add('C18')
        if conj in ('nopanic', 'populate'):
            ps.add('C13')
        if conj == 'observers':
            ps.add('C05')
        if conj == 'errpath':
            ps.add('C12')
        return ps
    if conj == 'ondisk':
        return {'C07', 'C01', 'C02'}
    if conj in ('class', 'value', 'effect', 'initmatch', 'populate'):
        ps.add('C01')
        # C12: the classes the properties pin (not-found, file-/directory-exists, not-supported, invalid-path)
        if conj == 'class' and sig.get('want') in (['notfound'], ['file_exists'], ['dir_exists'], ['not_supported'], ['invalid_path']):
            ps.add('C12')
        if kind == 'ovl':
            ps.add('C09')
            ps.add('C10')
        if kind == 'alt':
            ps.add('C07')
        if op in ('create_dir_all', 'remove_dir_all', 'copy_file', 'move_file', 'copy_dir', 'move_dir'):
            ps.add('C11')
        if op in ('create_file', 'append_file', 'copy_file', 'move_file') and conj == 'effect':
            ps.add('C04')
        # a write to one file that changes ANOTHER file and nothing else: the two share storage, which only an earlier
        # copy / move can have caused (C11: a copy is independent of its source)
        if op in ('create_file', 'append_file') and conj == 'effect' and list(sig.get('diff') or []) == ['elsewhere']:
            ps.add('C11')
        if op == 'set_time':
            ps.add('C19')
        if kind in ('mem', 'phys'):
            ps.add('C02')
    elif conj == 'union':
        ps.update(['C09'])
    elif conj == 'wellformed':
        ps.add('C03')
    elif conj == 'observers':
        ps.add('C05')
        if kind == 'ovl':
            ps.add('C10')
    elif conj == 'errpath':
        ps.add('C12')
    elif conj == 'nopanic':
        ps.add('C13')
    elif conj in ('lower', 'pure'):
        ps.add('C08')
    elif conj in ('confined', 'outside', 'twin', 'view'):
        ps.add('C07')
    elif conj == 'times':
        ps.add('C19')
    elif conj == 'agree':
        ps.add('C02')
    return ps


def load_known():
    f = V + '/known_findings.json'
    if not os.path.exists(f):
        return []
    return json.load(open(f)).get('findings', [])


def match_known(prop, v, known):
    """a violation is a known finding iff an OPEN entry for this property matches every key of its
    'match' record against the violation's signature (conj against the failing conjuncts)"""
    sig = v.get('sig', {})
    for k in known:
        if k.get('status') != 'open' or prop not in k.get('properties', []):
            continue
        ok = True
        for key, want in k.get('match', {}).items():
            if key == 'conj':
                if want not in v.get('conjs', []):
                    ok = False
            else:
                have = sig.get(key)
                if isinstance(want, list) and not isinstance(have, list):
                    if have not in want:
                        ok = False
                elif have != want:
                    ok = False
            if not ok:
                break
        if ok:
            return k
    return None


def segment_of(trace, l):
    """events of the segment that contains line l (1-based) of a trace shard, up to and including l"""
    lines = []
    with open(trace) as f:
        for i, line in enumerate(f, 1):
            if i > l:
                break
            lines.append(line)
    start = len(lines) - 1
    firsts = ('init', 'init2', 'hinit', 'hist', 'join', 'chain', 'awalk', 'hostile')
    while start > 0 and json.loads(lines[start]).get('ev') not in firsts:
        start -= 1
    return [json.loads(x) for x in lines[start:]]


def write_replay(prop, n, v, extra=None):
    os.makedirs(V + '/evidence/replays', exist_ok=True)
    path = V + '/evidence/replays/%s-%d.json' % (prop, n)
    seg = segment_of(v['trace'], v['l']) if 'trace' in v and 'l' in v else []
    init = seg[0] if seg else {}
    rep = {'property': prop, 'conjs': v.get('conjs'), 'sig': v.get('sig'), 'how_to_replay': './check --replay ' + path}
    if init.get('ev') == 'init':
        rep.update({'cfg': init.get('cfg'), 'names': init.get('names'), 'b': init.get('b'), 'universe': init.get('universe'),
                    'init_layers': init.get('layers'), 'init_wo': init.get('wo'),
                    'init_tree': [[e['p'], e['md']['k'], e['rd']['v']] for e in init.get('obs', {}).get('ents', [])[1:]],
                    'ops': [{k: e.get(k) for k in ('op', 'p', 'q', 'c', 'f', 'tick')} for e in seg[1:] if e.get('ev') == 'call'],
                    'observed': {'res': seg[-1].get('res') if len(seg) > 1 else None},
                    'fault': {k: seg[-1].get(k) for k in ('k', 'n', 'method', 'op', 'p')} if seg[-1].get('ev') == 'fcall' else None})
    elif init.get('ev') == 'hist':
        rep['conc_spec'] = {k: init.get(k) for k in ('prop', 'cfg', 'universe', 'init', 'pre_remove', 'progs', 'bound')}
        rep['observed'] = {k: init.get(k) for k in ('results', 'final', 'schedule')}
    else:
        # other trace kinds: keep the raw events (without the bulky parts)
        rep['events'] = [{k: val for k, val in e.items() if k not in ('seq',)} for e in seg[-4:]]
    if extra:
        rep.update(extra)
    json.dump(rep, open(path, 'w'), indent=1)
    return path


def write_evidence(prop, tier, seed, level, coverage, wall, violations, assumptions):
    os.makedirs(V + '/evidence', exist_ok=True)
    ev = {'property_id': prop, 'tier': tier, 'seed': seed, 'level': level, 'coverage': coverage,
          'assumptions': assumptions, 'wall_s': round(wall, 1), 'violations': violations}
    json.dump(ev, open(V + '/evidence/%s.json' % prop, 'w'), indent=1)
