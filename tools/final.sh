#!/bin/bash
# refresh everything that is committed from runs: evidence of all 20 quick checks, manifest, seed table
cd "$(dirname "$0")/.."
./setup.sh > /tmp/final_setup.log 2>&1 || { echo "setup failed"; tail -5 /tmp/final_setup.log; }
rc=0
for p in C01 C02 C03 C04 C05 C06 C07 C08 C09 C10 C11 C12 C13 C14 C15 C16 C17 C18 C19 C20; do
  /usr/bin/time -f "$p %es" ./check $p --tier quick 2>&1 | grep -E "VIOLATION|TOOL-ERROR|KNOWN-FINDING|conjuncts|^C[0-9]+ |NOTE"
  e=${PIPESTATUS[0]}; [ $e != 0 ] && { echo "$p EXIT $e"; rc=1; }
done
python3 mkmanifest.py > /dev/null && ./validate.py 2>&1 | grep -v "evidence valid"
python3 tools/seedtable.py
python3 - <<'PY'
import json,glob
for f in sorted(glob.glob('evidence/C*.json')):
    e=json.load(open(f)); o=e['coverage'].get('other_properties_seen')
    if o: print('other properties seen in', f, o)
PY
echo "final rc=$rc"
