#!/usr/bin/env python3
"""usage: trymut.py <seed-id> <prop> [<prop>..] [--tier quick]
Runs the registered checks against a seeded change WITHOUT touching /repo: a scratch copy of /repo HEAD
(git worktree) gets the patch, a scratch copy of the committed+working /verif is pointed at it.
Writes /verif/seeded/<seed-id>/trial-<props>.json and removes the scratch copies."""
import sys, os, subprocess, json, shutil, time
sid = sys.argv[1]
props = [a for a in sys.argv[2:] if not a.startswith('--')]
tier = 'thorough' if '--thorough' in sys.argv else 'quick'
base = '/tmp/mt/' + sid + '-' + '-'.join(props)
shutil.rmtree(base, ignore_errors=True)
os.makedirs(base)
repo = base + '/repo'
ver = base + '/verif'
def sh(cmd, **kw):
    return subprocess.run(cmd, shell=True, text=True, stdout=subprocess.PIPE, stderr=subprocess.STDOUT, **kw)
sh('git -C /repo worktree remove --force %s' % repo)
r = sh('git -C /repo worktree add -q --detach %s HEAD' % repo); assert r.returncode == 0, r.stdout
patch = '/verif/seeded/%s/patch.diff' % sid
r = sh('git -C %s apply %s' % (repo, patch))
if r.returncode != 0:
    r = sh('cd %s && patch -p1 --fuzz=3 --no-backup-if-mismatch -i %s' % (repo, patch))
if r.returncode != 0:
    print('APPLY FAILED', r.stdout); sh('git -C /repo worktree remove --force %s' % repo); sys.exit(3)
os.makedirs(ver, exist_ok=True)
sh('git -C /verif archive HEAD | tar -x -C %s' % ver)   # the last COMMITTED machinery (the working tree may be mid-edit)
sh('rm -rf %s/evidence' % ver)
os.makedirs(ver + '/evidence', exist_ok=True)
sh('cp -al /verif/harness/target %s/harness/target' % ver)
# reuse the spec-only caches (model checking results, emitted transition systems)
os.makedirs(ver + '/work', exist_ok=True)
for d in ('mc', 'lts'):
    if os.path.isdir('/verif/work/' + d):
        sh('cp -r /verif/work/%s %s/work/%s' % (d, ver, d))
sh("sed -i 's#path = \"/repo\"#path = \"%s\"#' %s/harness/Cargo.toml" % (repo, ver))
env = dict(os.environ, VERIF_HOME=ver, VERIF_REPO=repo)
res = {'seed': sid, 'tier': tier, 'checks': {}}
for p in props:
    t = time.time()
    r = sh('cd %s && ./check %s --tier %s' % (ver, p, tier), env=env)
    lines = [l for l in r.stdout.splitlines() if l.startswith('VIOLATION') or l.startswith('KNOWN-FINDING') or l.startswith('TOOL-ERROR') or l.startswith('  conj')]
    res['checks'][p] = {'exit': r.returncode, 'wall_s': round(time.time() - t, 1), 'lines': lines[:8]}
    print(sid, p, 'exit', r.returncode, 'in %.0fs' % (time.time() - t), flush=True)
    for l in lines[:4]:
        print('   ', l[:260])
    if r.returncode == 2:
        print(r.stdout[-1500:])
json.dump(res, open('/verif/seeded/%s/trial-%s.json' % (sid, '-'.join(props)), 'w'), indent=1)
if '--keep' not in sys.argv:
    sh('git -C /repo worktree remove --force %s' % repo)
    shutil.rmtree(base, ignore_errors=True)
else:
    print('kept', base)
