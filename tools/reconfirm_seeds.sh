#!/bin/bash
# re-checks every stored seed against /repo HEAD: the patch must still apply and its demonstration must still fail.
# seeds that a later fix: commit made harmless get meta.json.verif_note = "neutralised ..." (they stay as documentation)
HEAD=$(git -C /repo rev-parse --short HEAD)
for d in /verif/seeded/*/; do
  id=$(basename $d)
  WT=/tmp/wt/reconf-$id
  git -C /repo worktree remove --force $WT 2>/dev/null
  git -C /repo worktree add -q --detach $WT HEAD || continue
  cd $WT
  export CARGO_TARGET_DIR=/tmp/wt/reconf-target CARGO_NET_OFFLINE=true
  FEAT=$(python3 -c "import json;print(json.load(open('$d/meta.json')).get('features',''))")
  FARG=""; [ -n "$FEAT" ] && FARG="--features $FEAT"
  if git apply $d/patch.diff 2>/dev/null || patch -p1 --fuzz=3 --no-backup-if-mismatch -s -i $d/patch.diff >/dev/null 2>&1; then
    mkdir -p tests && cp $d/demo.rs tests/seed_demo.rs
    if cargo test --offline --test seed_demo $FARG > /tmp/wt/reconf-$id.log 2>&1; then R="neutralised: on /repo $HEAD the demonstration passes WITH the change (a later fix: commit removed the failure mode)"; else R=""; fi
  else
    R="does not apply to /repo $HEAD any more (the code it changes was rewritten by a fix: commit)"
  fi
  python3 - <<PY
import json
p='$d/meta.json'; m=json.load(open(p))
r="""$R"""
if r: m['verif_note']=r
else: m.pop('verif_note',None)
m['rechecked_at']='$HEAD'
json.dump(m,open(p,'w'),indent=1)
print('$id', r or 'still harmful')
PY
  cd /; git -C /repo worktree remove --force $WT
done
rm -rf /tmp/wt/reconf-target
