#!/usr/bin/env python3
"""usage: revfix.py [make|list]
Regression seeds: for every `fix:` commit recorded in known_findings.json, the REVERSE of that commit applied
to /repo HEAD (in a scratch worktree under /tmp) is a realistic change that re-introduces a defect the
property forbids and that the pinned suite accepts.  `make` writes /verif/seeded/RF-<short>/{patch.diff,
meta.json} for every reverse patch that still applies, compiles and passes the pinned test suite."""
import json, os, subprocess, sys, shutil
V = os.path.dirname(os.path.dirname(os.path.abspath(__file__)))
def sh(cmd, **kw):
    return subprocess.run(cmd, shell=True, text=True, stdout=subprocess.PIPE, stderr=subprocess.STDOUT, **kw)
known = json.load(open(V + '/known_findings.json'))
wt = '/tmp/rf/repo'
for f in known['fixed']:
    c = f['commit']
    sid = 'RF-' + c[:7]
    d = V + '/seeded/' + sid
    if len(sys.argv) > 1 and sys.argv[1] == 'list':
        print(sid, ' '.join(f['properties']), os.path.exists(d + '/patch.diff'))
        continue
    if os.path.exists(d + '/patch.diff'):
        continue
    sh('git -C /repo worktree remove --force %s' % wt)
    shutil.rmtree('/tmp/rf', ignore_errors=True)
    os.makedirs('/tmp/rf')
    r = sh('git -C /repo worktree add -q --detach %s HEAD' % wt)
    assert r.returncode == 0, r.stdout
    sh('git -C /repo diff %s %s^ -- src > /tmp/rf/rev.diff' % (c, c))
    r = sh('git -C %s apply /tmp/rf/rev.diff' % wt)
    if r.returncode != 0:
        r = sh('cd %s && patch -p1 --fuzz=3 --no-backup-if-mismatch -i /tmp/rf/rev.diff' % wt)
    if r.returncode != 0:
        print(sid, 'reverse patch does not apply to HEAD (later fixes build on it)')
        sh('git -C /repo worktree remove --force %s' % wt)
        continue
    sh('find %s -name "*.orig" -o -name "*.rej" | xargs rm -f' % wt)
    r = sh('cd %s && CARGO_TARGET_DIR=/tmp/rf/target cargo test --workspace --no-fail-fast --offline 2>&1 | tail -40' % wt, timeout=3600)
    ok = 'test result: FAILED' not in r.stdout and 'error' not in r.stdout.split('test result')[0][-2000:] and 'test result: ok' in r.stdout
    r2 = sh('cd %s && CARGO_TARGET_DIR=/tmp/rf/target cargo test --offline --features async-vfs,embedded-fs 2>&1 | grep -E "^test result|error(\\[|:)" | head' % wt, timeout=3600)
    ok2 = 'FAILED' not in r2.stdout and 'error' not in r2.stdout
    if not ok:
        print(sid, 'suite does not pass with the reverse patch:', r.stdout[-600:])
    else:
        os.makedirs(d, exist_ok=True)
        sh('git -C %s diff -- src > %s/patch.diff' % (wt, d))
        json.dump({'id': sid, 'property': f['properties'][0], 'properties': f['properties'], 'origin': 'reverse of fix commit %s' % c,
                   'what': 're-introduces: ' + f['what'], 'suite_passes': True, 'all_features_suite_passes': ok2,
                   'demonstration': 'the replay case recorded when the defect was found (see the fix commit message)'},
                  open(d + '/meta.json', 'w'), indent=1)
        print(sid, 'stored; props', f['properties'], 'all-features suite ok' if ok2 else 'all-features suite FAILS (async tests added by the fix?)')
    sh('git -C /repo worktree remove --force %s' % wt)
shutil.rmtree('/tmp/rf', ignore_errors=True)
sh('git -C /repo worktree prune')
