#!/bin/bash
# usage: confirm_seed.sh <ID> <n>   e.g. C06 1
# confirms a sub-agent's seeded change in a scratch worktree of /repo HEAD:
#  demo passes without the change; with it: builds, the whole existing suite passes (both feature sets), demo fails.
# on success stores /verif/seeded/<ID>-<n>/{patch.diff,demo.rs,meta.json}
ID=$1; N=$2
SRC=/tmp/wt/outs/$ID
WT=/tmp/wt/confirm-$ID-$N
LOG=/tmp/wt/confirm-$ID-$N.log
exec > $LOG 2>&1
set -x
cd /repo && git worktree remove --force $WT 2>/dev/null; git worktree add -q --detach $WT HEAD || exit 2
cd $WT
export CARGO_TARGET_DIR=$WT/target CARGO_NET_OFFLINE=true
FEAT=$(python3 -c "import json;print(json.load(open('$SRC/mut$N.json')).get('features',''))")
FARG=""; [ -n "$FEAT" ] && FARG="--features $FEAT"
mkdir -p tests && cp $SRC/mut${N}_demo.rs tests/seed_demo.rs
cargo test --offline --test seed_demo $FARG > demo_without.log 2>&1; W=$?
if ! git apply --3way $SRC/mut$N.patch 2>apply.err && ! git apply $SRC/mut$N.patch 2>>apply.err; then
  echo "RESULT $ID-$N APPLY-FAILED"; cat apply.err; exit 3; fi
git diff HEAD -- src Cargo.toml > applied.diff
cargo test --offline --test seed_demo $FARG > demo_with.log 2>&1; D=$?
mv tests/seed_demo.rs /tmp/wt/seed_demo_$ID-$N.rs
cargo test --offline > suite_default.log 2>&1; S1=$?
cargo test --offline --features async-vfs,embedded-fs > suite_all.log 2>&1; S2=$?
echo "RESULT $ID-$N demo_without=$W demo_with=$D suite_default=$S1 suite_all=$S2"
if [ $W = 0 ] && [ $D != 0 ] && [ $S1 = 0 ] && [ $S2 = 0 ]; then
  OUT=/verif/seeded/$ID-$N; mkdir -p $OUT
  cp applied.diff $OUT/patch.diff; cp /tmp/wt/seed_demo_$ID-$N.rs $OUT/demo.rs
  python3 - <<PY
import json
m=json.load(open('$SRC/mut$N.json'))
m.update({'id':'$ID-$N','base_commit':'$(git -C /repo rev-parse HEAD)',
 'confirmed':{'demo_passes_without_change':True,'demo_fails_with_change':True,'suite_default_passes_with_change':True,'suite_all_features_passes_with_change':True,
 'how':'tools/confirm_seed.sh: scratch worktree of /repo HEAD; cargo test --offline --test seed_demo before/after git apply; cargo test --offline and --features async-vfs,embedded-fs with the change'}})
json.dump(m,open('$OUT/meta.json','w'),indent=1)
PY
  echo "STORED $OUT"
fi
cd /repo && git worktree remove --force $WT
rm -f /tmp/wt/seed_demo_$ID-$N.rs
