#!/usr/bin/env python3
"""regenerates the seeded-change table of DESIGN.md (section 14.4) from seeded/*/meta.json and trial-*.json"""
import json, glob, os, re
rows = []
for d in sorted(glob.glob('/verif/seeded/*/')):
    sid = os.path.basename(d.rstrip('/'))
    m = json.load(open(d + 'meta.json')) if os.path.exists(d + 'meta.json') else {}
    caught, missed = [], []
    for t in sorted(glob.glob(d + 'trial-*.json')):
        r = json.load(open(t))
        for p, c in r['checks'].items():
            (caught if c['exit'] == 1 else missed).append(p + ('' if c['exit'] in (0, 1) else '(tool error)'))
    note = m.get('verif_note', '')
    rows.append('| %s | %s | %s | %s | %s |' % (sid, (m.get('summary') or m.get('what') or '')[:150].replace('|', '/'), ', '.join(sorted(set(caught))) or '–',
                                             ', '.join(sorted(set(missed) - set(caught))) or '–', note))
table = '| seed | change | caught by (quick) | run without alarm | note |\n|---|---|---|---|---|\n' + '\n'.join(rows)
s = open('/verif/DESIGN.md').read()
if '<!-- SEEDTABLE BEGIN -->' in s:
    s = re.sub(r'<!-- SEEDTABLE BEGIN -->.*<!-- SEEDTABLE END -->', '<!-- SEEDTABLE BEGIN -->\n' + table + '\n<!-- SEEDTABLE END -->', s, flags=re.S)
else:
    s = s.replace('SEEDTABLE', '<!-- SEEDTABLE BEGIN -->\n' + table + '\n<!-- SEEDTABLE END -->', 1)
open('/verif/DESIGN.md', 'w').write(s)
print(len(rows), 'seeds')
