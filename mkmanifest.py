#!/usr/bin/env python3
"""regenerates MANIFEST.json from the property table in groups.py (single source of truth)"""
import json, sys, subprocess
sys.path.insert(0, '/verif')
import groups as G
props = [json.loads(l) for l in open('/verif/properties.jsonl')]
hooks = subprocess.run("git -C /repo log --format=%H --grep='^verif hooks' ", shell=True, capture_output=True, text=True).stdout.split()
TEXT = G.MANIFEST_TEXT
checks = []
na = []
for p in props:
    pid = p['id']
    if pid in G.PROPS and pid in TEXT:
        t = TEXT[pid]
        checks.append({
            'property_id': pid,
            'quick_cmd': './check %s --tier quick' % pid,
            'thorough_cmd': './check %s --tier thorough' % pid,
            'evidence_file': '/verif/evidence/%s.json' % pid,
            'replay_cmd_template': './check --replay {path}',
            'engine': 'tla-trace-validation',
            'level_claimed': {'category': 'model_checking', 'text': t['level'], 'design_ref': t.get('ref', 'DESIGN.md section 6')},
            'level_note': t['note'],
            'technique': t['technique'],
        })
    else:
        na.append({'property_id': pid, 'reason': G.NOT_YET.get(pid, 'check not built yet (see DESIGN.md section 13, build order)')})
m = {
    'version': 1,
    'setup_cmd': './setup.sh',
    'hooks': {'guard': 'cargo feature verif-hooks (vfs/verif-hooks)', 'enable': 'the harness crate depends on vfs with features = [verif-hooks] (cargo build --features hooks in /verif/harness)',
              'baseline_off_cmd': 'cd /repo && cargo test --workspace --no-fail-fast --offline', 'source_commits': hooks, 'add_only': True},
    'engines': [{'name': 'tla-trace-validation', 'path': '/verif/check', 'serves_properties': [c['property_id'] for c in checks],
                 'kind_free_text': 'explicit TLA+ specification (spec/*.tla): TLC model-checks Level A / Level B instances and emits the labelled transition system; a Rust harness replays it on the real code and records traces; TLC validates every trace event against Level A (Trace_*.tla)'}],
    'checks': checks,
    'not_applicable': na,
    'notes': 'quick tier: seeded samples of the LTS edge cover + random walks on every configuration; thorough tier: complete edge cover. Run groups are cached under /verif/work keyed by a content hash of /repo sources, the specification, the harness, tier and seed. spec_ext/ holds specification modules that extend Level B (MemFS: the flat string-keyed map of MemoryFS) and are model-checked by spec_ext/run.sh; they are not the deciding check of any property (DESIGN.md 14.z).',
}
json.dump(m, open('/verif/MANIFEST.json', 'w'), indent=1)
print('checks:', [c['property_id'] for c in checks], 'not yet:', [x['property_id'] for x in na])
