import sys,json,collections,glob
for rf in sorted(glob.glob('/verif/work/groups/*/result.json')):
    if len(sys.argv)>1 and sys.argv[1] not in rf: continue
    r=json.load(open(rf))
    c=collections.Counter(); ex={}
    for v in r['viols']:
        if v['secondary']: c['(secondary)']+=1; continue
        s=v['sig']
        k=(tuple(sorted(v['conjs'])),s.get('op'),s.get('target'),s.get('parent'),s.get('dest'),s.get('got'),tuple(s.get('want',[])),s.get('where'),s.get('cfg'),s.get('f'))
        c[k]+=1; ex.setdefault(k,v)
    print('=====',rf.split('/')[-2],len(r['viols']),'records', r['stats'])
    for k,n in c.most_common(int(sys.argv[2]) if len(sys.argv)>2 else 40):
        print(' ',n,k, '' if k=='(secondary)' else json.dumps(ex[k]['sig'].get('diff')), '' if k=='(secondary)' else (ex[k]['trace'].split('/')[-1], ex[k]['l']))
