//! Executes one abstract operation record on a real filesystem root and classifies the outcome.
use crate::names::*;
use crate::obs::*;
use serde_json::{json, Value};
use std::io::Write;
use vfs::*;

#[derive(Clone, Debug, PartialEq)]
pub struct Op {
    pub op: String,
    pub p: Vec<String>,
    pub q: Vec<String>,
    pub c: Vec<i64>,
    pub f: String,   // timestamp field for set_time
    pub tick: usize, // index into the tick table
}
impl Op {
    pub fn from_json(v: &Value) -> Op {
        let path = |x: &Value| x.as_array().map(|a| a.iter().map(|s| s.as_str().unwrap().to_string()).collect()).unwrap_or_default();
        Op {
            op: v["op"].as_str().unwrap().to_string(),
            p: path(&v["p"]),
            q: path(&v["q"]),
            c: v["c"].as_array().map(|a| a.iter().map(|x| x.as_i64().unwrap()).collect()).unwrap_or_default(),
            f: v["f"].as_str().unwrap_or("").to_string(),
            tick: v["tick"].as_u64().unwrap_or(0) as usize,
        }
    }
    pub fn to_json(&self) -> Value {
        json!({"op":self.op,"p":self.p,"q":self.q,"c":self.c,"f":self.f,"tick":self.tick,"tv":time_str(Some(tick(self.tick)))})
    }
    pub fn has_dest(&self) -> bool {
        matches!(self.op.as_str(), "copy_file" | "move_file" | "copy_dir" | "move_dir")
    }
}

pub struct Res {
    pub cls: String,
    pub ep: Value,
    pub val: i64,
}
impl Res {
    pub fn to_json(&self) -> Value {
        json!({"c":self.cls,"ep":self.ep,"val":self.val})
    }
}

fn fin<T>(cx: &Conc, r: Result<VfsResult<T>, ()>, val: impl FnOnce(&T) -> i64) -> Res {
    match r {
        Err(()) => Res { cls: "panic".into(), ep: json!(["-"]), val: 0 },
        Ok(Err(e)) => Res { cls: class_of(&e).into(), ep: cx.ep(e.path()), val: 0 },
        Ok(Ok(v)) => Res { cls: "ok".into(), ep: json!(["-"]), val: val(&v) },
    }
}

/// a complete write session (open, write_all, flush, drop) judged as one public operation.  An
/// io::Error of the harness's own write_all/flush is not an error "returned by a path operation"
/// (C12), so it is reported with the call's own path and the generic class.
fn write_session(cx: &Conc, pabs: &[String], open: impl FnOnce() -> VfsResult<Box<dyn SeekAndWrite + Send>>, bytes: &[u8]) -> Res {
    let r = guard(|| -> Result<(), Result<VfsError, std::io::Error>> {
        let mut h = open().map_err(Ok)?;
        h.write_all(bytes).map_err(Err)?;
        h.flush().map_err(Err)?;
        drop(h);
        Ok(())
    });
    match r {
        Err(()) => Res { cls: "panic".into(), ep: json!(["-"]), val: 0 },
        Ok(Ok(())) => Res { cls: "ok".into(), ep: json!(["-"]), val: 0 },
        Ok(Err(Ok(e))) => Res { cls: class_of(&e).into(), ep: cx.ep(e.path()), val: 0 },
        Ok(Err(Err(_io))) => Res { cls: "err".into(), ep: json!(pabs), val: 0 },
    }
}

/// run `op` on `root` (source) and `root2` (filesystem of the destination; same as root for one instance)
pub fn exec(root: &VfsPath, root2: &VfsPath, op: &Op, cx: &Conc) -> Res {
    let p = cx.path(root, &op.p);
    let q = cx.path(root2, &op.q);
    let bytes = conc_bytes(&op.c, cx.b);
    let t = tick(op.tick);
    match op.op.as_str() {
        "create_dir" => fin(cx, guard(|| p.create_dir()), |_| 0),
        "create_file" => write_session(cx, &op.p, || p.create_file(), &bytes),
        "append_file" => write_session(cx, &op.p, || p.append_file(), &bytes),
        "remove_file" => fin(cx, guard(|| p.remove_file()), |_| 0),
        "remove_dir" => fin(cx, guard(|| p.remove_dir()), |_| 0),
        "create_dir_all" => fin(cx, guard(|| p.create_dir_all()), |_| 0),
        "remove_dir_all" => fin(cx, guard(|| p.remove_dir_all()), |_| 0),
        "copy_file" => fin(cx, guard(|| p.copy_file(&q)), |_| 0),
        "move_file" => fin(cx, guard(|| p.move_file(&q)), |_| 0),
        "copy_dir" => fin(cx, guard(|| p.copy_dir(&q)), |n| *n as i64),
        "move_dir" => fin(cx, guard(|| p.move_dir(&q)), |_| 0),
        "set_time" => match op.f.as_str() {
            "cr" => fin(cx, guard(|| p.set_creation_time(t)), |_| 0),
            "mo" => fin(cx, guard(|| p.set_modification_time(t)), |_| 0),
            "ac" => fin(cx, guard(|| p.set_access_time(t)), |_| 0),
            f => panic!("bad time field {f}"),
        },
        other => panic!("unknown op {other}"),
    }
}

