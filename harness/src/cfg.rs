//! Backend configurations as a small term language mirroring the specification's config data:
//!   mem | phys | alt(<dir>[/<dir>..],<cfg>) | ovl(<cfg>,<cfg>,..) | fault(<cfg>)
//! plus wrappers written against the public FileSystem trait (no hooks needed): RecFS, FaultFS.
use std::path::PathBuf;
use std::sync::atomic::{AtomicBool, AtomicI64, AtomicU64, Ordering};
use std::sync::{Arc, Mutex};
use std::time::SystemTime;
use vfs::error::VfsErrorKind;
use vfs::*;

#[derive(Clone, Debug, PartialEq)]
pub enum Term {
    Mem,
    Phys,
    Alt(Vec<String>, Box<Term>),
    Ovl(Vec<Term>),
    /// an overlay whose n layers are sibling directories (zl1, zl2, ..) of ONE MemoryFS instance
    OvlShared(usize),
    /// the same, but the layers are sub-PATHS of one VfsPath (no adapter in between): OverlayFS::new(&[m.join("zl1"), m.join("zl2")])
    OvlSub(usize),
    Fault(Box<Term>),
}

pub fn parse(s: &str) -> Term {
    let mut p = Parser { s: s.as_bytes(), i: 0 };
    let t = p.term();
    assert!(p.i == s.len(), "trailing input in config term {s}");
    t
}
struct Parser<'a> {
    s: &'a [u8],
    i: usize,
}
impl<'a> Parser<'a> {
    fn ident(&mut self) -> String {
        let st = self.i;
        while self.i < self.s.len() && (self.s[self.i].is_ascii_alphanumeric() || self.s[self.i] == b'/') {
            self.i += 1;
        }
        String::from_utf8(self.s[st..self.i].to_vec()).unwrap()
    }
    fn expect(&mut self, c: u8) {
        assert!(self.i < self.s.len() && self.s[self.i] == c, "expected {} at {}", c as char, self.i);
        self.i += 1;
    }
    fn term(&mut self) -> Term {
        let id = self.ident();
        match id.as_str() {
            "mem" => Term::Mem,
            "phys" => Term::Phys,
            "alt" => {
                self.expect(b'(');
                let dir = self.ident();
                self.expect(b',');
                let inner = self.term();
                self.expect(b')');
                let comps: Vec<String> = dir.split('/').filter(|c| !c.is_empty()).map(|c| c.to_string()).collect();
                Term::Alt(comps, Box::new(inner))
            }
            "ovl" => {
                self.expect(b'(');
                let mut v = vec![self.term()];
                while self.i < self.s.len() && self.s[self.i] == b',' {
                    self.i += 1;
                    v.push(self.term());
                }
                self.expect(b')');
                Term::Ovl(v)
            }
            "ovlsh" => {
                self.expect(b'(');
                let n: usize = self.ident().parse().expect("layer count");
                self.expect(b')');
                Term::OvlShared(n)
            }
            "ovlsub" => {
                self.expect(b'(');
                let n: usize = self.ident().parse().expect("layer count");
                self.expect(b')');
                Term::OvlSub(n)
            }
            "fault" => {
                self.expect(b'(');
                let inner = self.term();
                self.expect(b')');
                Term::Fault(Box::new(inner))
            }
            other => panic!("unknown config term '{other}'"),
        }
    }
}

impl Term {
    pub fn kind(&self) -> &'static str {
        match self {
            Term::Mem => "mem",
            Term::Phys => "phys",
            Term::Alt(..) => "alt",
            Term::Ovl(..) | Term::OvlShared(..) | Term::OvlSub(..) => "ovl",
            Term::Fault(t) => t.kind(),
        }
    }
    /// which timestamp setters the configuration supports (per-configuration table of Level A)
    pub fn sup(&self) -> Vec<&'static str> {
        match self {
            Term::Mem => vec!["cr", "mo", "ac"],
            Term::Phys => vec!["mo", "ac"],
            Term::Alt(_, t) => t.sup(),
            Term::Ovl(v) => v[0].sup(),
            Term::OvlShared(_) | Term::OvlSub(_) => vec!["cr", "mo", "ac"],
            Term::Fault(t) => t.sup(),
        }
    }
    pub fn has_phys(&self) -> bool {
        match self {
            Term::Mem | Term::OvlShared(_) | Term::OvlSub(_) => false,
            Term::Phys => true,
            Term::Alt(_, t) | Term::Fault(t) => t.has_phys(),
            Term::Ovl(v) => v.iter().any(|t| t.has_phys()),
        }
    }
    pub fn has_ovl(&self) -> bool {
        match self {
            Term::Mem | Term::Phys => false,
            Term::Alt(_, t) | Term::Fault(t) => t.has_ovl(),
            Term::Ovl(_) | Term::OvlShared(_) | Term::OvlSub(_) => true,
        }
    }
}

// ---------------------------------------------------------------- RecFS
pub struct RecLog {
    pub on: AtomicBool,
    pub calls: Mutex<Vec<(&'static str, String)>>,
}
impl RecLog {
    pub fn new() -> Arc<RecLog> {
        Arc::new(RecLog { on: AtomicBool::new(false), calls: Mutex::new(vec![]) })
    }
    pub fn start(&self) {
        self.calls.lock().unwrap().clear();
        self.on.store(true, Ordering::SeqCst);
    }
    pub fn stop(&self) -> Vec<(&'static str, String)> {
        self.on.store(false, Ordering::SeqCst);
        std::mem::take(&mut *self.calls.lock().unwrap())
    }
    fn rec(&self, m: &'static str, p: &str) {
        if self.on.load(Ordering::SeqCst) {
            self.calls.lock().unwrap().push((m, p.to_string()));
        }
    }
}
pub const MUTATING: [&str; 11] = [
    "create_dir", "create_file", "append_file", "remove_file", "remove_dir", "set_creation_time",
    "set_modification_time", "set_access_time", "copy_file", "move_file", "move_dir",
];

/// records method and path of every call it forwards
pub struct RecFS {
    pub inner: Box<dyn FileSystem>,
    pub log: Arc<RecLog>,
}
impl std::fmt::Debug for RecFS {
    fn fmt(&self, f: &mut std::fmt::Formatter<'_>) -> std::fmt::Result {
        write!(f, "RecFS({:?})", self.inner)
    }
}
impl FileSystem for RecFS {
    fn read_dir(&self, path: &str) -> VfsResult<Box<dyn Iterator<Item = String> + Send>> {
        self.log.rec("read_dir", path);
        self.inner.read_dir(path)
    }
    fn create_dir(&self, path: &str) -> VfsResult<()> {
        self.log.rec("create_dir", path);
        self.inner.create_dir(path)
    }
    fn open_file(&self, path: &str) -> VfsResult<Box<dyn SeekAndRead + Send>> {
        self.log.rec("open_file", path);
        self.inner.open_file(path)
    }
    fn create_file(&self, path: &str) -> VfsResult<Box<dyn SeekAndWrite + Send>> {
        self.log.rec("create_file", path);
        self.inner.create_file(path)
    }
    fn append_file(&self, path: &str) -> VfsResult<Box<dyn SeekAndWrite + Send>> {
        self.log.rec("append_file", path);
        self.inner.append_file(path)
    }
    fn metadata(&self, path: &str) -> VfsResult<VfsMetadata> {
        self.log.rec("metadata", path);
        self.inner.metadata(path)
    }
    fn set_creation_time(&self, path: &str, time: SystemTime) -> VfsResult<()> {
        self.log.rec("set_creation_time", path);
        self.inner.set_creation_time(path, time)
    }
    fn set_modification_time(&self, path: &str, time: SystemTime) -> VfsResult<()> {
        self.log.rec("set_modification_time", path);
        self.inner.set_modification_time(path, time)
    }
    fn set_access_time(&self, path: &str, time: SystemTime) -> VfsResult<()> {
        self.log.rec("set_access_time", path);
        self.inner.set_access_time(path, time)
    }
    fn exists(&self, path: &str) -> VfsResult<bool> {
        self.log.rec("exists", path);
        self.inner.exists(path)
    }
    fn remove_file(&self, path: &str) -> VfsResult<()> {
        self.log.rec("remove_file", path);
        self.inner.remove_file(path)
    }
    fn remove_dir(&self, path: &str) -> VfsResult<()> {
        self.log.rec("remove_dir", path);
        self.inner.remove_dir(path)
    }
    fn copy_file(&self, src: &str, dest: &str) -> VfsResult<()> {
        self.log.rec("copy_file_source", src); // the source is only read
        self.log.rec("copy_file", dest);
        self.inner.copy_file(src, dest)
    }
    fn move_file(&self, src: &str, dest: &str) -> VfsResult<()> {
        self.log.rec("move_file", src);
        self.log.rec("move_file", dest);
        self.inner.move_file(src, dest)
    }
    fn move_dir(&self, src: &str, dest: &str) -> VfsResult<()> {
        self.log.rec("move_dir", src);
        self.log.rec("move_dir", dest);
        self.inner.move_dir(src, dest)
    }
}

// --------------------------------------------------------------- FaultFS
/// fails its k-th call (counting every trait-method call while armed) with an I/O error instead of
/// executing it; also counts calls so a sweep knows how many positions there are
pub struct FaultCtl {
    pub armed: AtomicBool,
    pub count: AtomicU64,
    pub fail_at: AtomicI64, // -1: never
    pub fired: AtomicBool,
    pub fired_method: Mutex<String>,
}
impl FaultCtl {
    pub fn new() -> Arc<FaultCtl> {
        Arc::new(FaultCtl {
            armed: AtomicBool::new(false),
            count: AtomicU64::new(0),
            fail_at: AtomicI64::new(-1),
            fired: AtomicBool::new(false),
            fired_method: Mutex::new(String::new()),
        })
    }
    pub fn arm(&self, k: i64) {
        self.count.store(0, Ordering::SeqCst);
        self.fail_at.store(k, Ordering::SeqCst);
        self.fired.store(false, Ordering::SeqCst);
        self.armed.store(true, Ordering::SeqCst);
    }
    pub fn disarm(&self) -> u64 {
        self.armed.store(false, Ordering::SeqCst);
        self.count.load(Ordering::SeqCst)
    }
    pub fn hit(&self, m: &str) -> bool {
        if !self.armed.load(Ordering::SeqCst) {
            return false;
        }
        let n = self.count.fetch_add(1, Ordering::SeqCst) + 1;
        if n as i64 == self.fail_at.load(Ordering::SeqCst) {
            self.fired.store(true, Ordering::SeqCst);
            *self.fired_method.lock().unwrap() = m.to_string();
            return true;
        }
        false
    }
}
pub struct FaultFS {
    pub inner: Box<dyn FileSystem>,
    pub ctl: Arc<FaultCtl>,
}
impl std::fmt::Debug for FaultFS {
    fn fmt(&self, f: &mut std::fmt::Formatter<'_>) -> std::fmt::Result {
        write!(f, "FaultFS({:?})", self.inner)
    }
}
fn injected<T>() -> VfsResult<T> {
    Err(VfsErrorKind::IoError(std::io::Error::new(std::io::ErrorKind::Other, "injected fault")).into())
}
impl FileSystem for FaultFS {
    fn read_dir(&self, path: &str) -> VfsResult<Box<dyn Iterator<Item = String> + Send>> {
        if self.ctl.hit("read_dir") {
            return injected();
        }
        self.inner.read_dir(path)
    }
    fn create_dir(&self, path: &str) -> VfsResult<()> {
        if self.ctl.hit("create_dir") {
            return injected();
        }
        self.inner.create_dir(path)
    }
    fn open_file(&self, path: &str) -> VfsResult<Box<dyn SeekAndRead + Send>> {
        if self.ctl.hit("open_file") {
            return injected();
        }
        self.inner.open_file(path)
    }
    fn create_file(&self, path: &str) -> VfsResult<Box<dyn SeekAndWrite + Send>> {
        if self.ctl.hit("create_file") {
            return injected();
        }
        self.inner.create_file(path)
    }
    fn append_file(&self, path: &str) -> VfsResult<Box<dyn SeekAndWrite + Send>> {
        if self.ctl.hit("append_file") {
            return injected();
        }
        self.inner.append_file(path)
    }
    fn metadata(&self, path: &str) -> VfsResult<VfsMetadata> {
        if self.ctl.hit("metadata") {
            return injected();
        }
        self.inner.metadata(path)
    }
    fn set_creation_time(&self, path: &str, time: SystemTime) -> VfsResult<()> {
        if self.ctl.hit("set_creation_time") {
            return injected();
        }
        self.inner.set_creation_time(path, time)
    }
    fn set_modification_time(&self, path: &str, time: SystemTime) -> VfsResult<()> {
        if self.ctl.hit("set_modification_time") {
            return injected();
        }
        self.inner.set_modification_time(path, time)
    }
    fn set_access_time(&self, path: &str, time: SystemTime) -> VfsResult<()> {
        if self.ctl.hit("set_access_time") {
            return injected();
        }
        self.inner.set_access_time(path, time)
    }
    fn exists(&self, path: &str) -> VfsResult<bool> {
        if self.ctl.hit("exists") {
            return injected();
        }
        self.inner.exists(path)
    }
    fn remove_file(&self, path: &str) -> VfsResult<()> {
        if self.ctl.hit("remove_file") {
            return injected();
        }
        self.inner.remove_file(path)
    }
    fn remove_dir(&self, path: &str) -> VfsResult<()> {
        if self.ctl.hit("remove_dir") {
            return injected();
        }
        self.inner.remove_dir(path)
    }
    fn copy_file(&self, src: &str, dest: &str) -> VfsResult<()> {
        if self.ctl.hit("copy_file") {
            return injected();
        }
        self.inner.copy_file(src, dest)
    }
    fn move_file(&self, src: &str, dest: &str) -> VfsResult<()> {
        if self.ctl.hit("move_file") {
            return injected();
        }
        self.inner.move_file(src, dest)
    }
    fn move_dir(&self, src: &str, dest: &str) -> VfsResult<()> {
        if self.ctl.hit("move_dir") {
            return injected();
        }
        self.inner.move_dir(src, dest)
    }
}

// ----------------------------------------------------------------- World
pub struct Layer {
    pub root: VfsPath, // the layer's own handle (through its RecFS)
    pub log: Arc<RecLog>,
    /// layers that are sub-paths of one recorded filesystem share its log: calls are attributed by this path prefix
    pub prefix: Option<String>,
}
pub struct Under {
    pub root: VfsPath, // the underlying filesystem's own root (through its RecFS)
    pub prefix: Vec<String>, // abstract names of the altroot directory P
    pub log: Arc<RecLog>,
}
pub struct World {
    pub root: VfsPath,
    pub term: Term,
    pub cfg: String,
    pub layers: Vec<Layer>,   // top-level ovl only
    pub under: Option<Under>, // top-level alt only
    pub faults: Vec<Arc<FaultCtl>>,
    pub tmp: Vec<PathBuf>,
}
impl Drop for World {
    fn drop(&mut self) {
        for d in &self.tmp {
            let _ = std::fs::remove_dir_all(d);
        }
    }
}

static TMP_COUNTER: AtomicU64 = AtomicU64::new(0);
pub fn tmp_base() -> PathBuf {
    let base = std::env::var("VERIF_TMP").map(PathBuf::from).unwrap_or_else(|_| std::env::temp_dir());
    base.join(format!("vfs-verif-{}", std::process::id()))
}
pub fn fresh_tmp() -> PathBuf {
    let n = TMP_COUNTER.fetch_add(1, Ordering::SeqCst);
    let d = tmp_base().join(format!("d{n}"));
    std::fs::create_dir_all(&d).unwrap();
    d
}

struct Ctx {
    tmp: Vec<PathBuf>,
    faults: Vec<Arc<FaultCtl>>,
}

fn build_fs(t: &Term, ctx: &mut Ctx) -> Box<dyn FileSystem> {
    match t {
        Term::Mem => Box::new(MemoryFS::new()),
        Term::Phys => {
            // the PhysicalFS root is a sub-directory of a sandbox so that the sandbox can hold canaries
            let sandbox = fresh_tmp();
            let root = sandbox.join("root");
            std::fs::create_dir_all(&root).unwrap();
            ctx.tmp.push(sandbox);
            Box::new(PhysicalFS::new(root))
        }
        Term::Alt(dir, inner) => {
            let under = VfsPath::new(BoxFS(build_fs(inner, ctx)));
            let p = under.join(dir.join("/")).unwrap();
            p.create_dir_all().unwrap();
            Box::new(AltrootFS::new(p))
        }
        Term::Ovl(layers) => {
            let roots: Vec<VfsPath> = layers.iter().map(|l| VfsPath::new(BoxFS(build_fs(l, ctx)))).collect();
            Box::new(OverlayFS::new(&roots))
        }
        Term::OvlSub(n) => {
            let shared = VfsPath::new(MemoryFS::new());
            let roots: Vec<VfsPath> = (1..=*n)
                .map(|i| {
                    let d = shared.join(format!("zl{i}")).unwrap();
                    d.create_dir().unwrap();
                    d
                })
                .collect();
            Box::new(OverlayFS::new(&roots))
        }
        Term::OvlShared(n) => {
            let shared = VfsPath::new(MemoryFS::new());
            let roots: Vec<VfsPath> = (1..=*n)
                .map(|i| {
                    let d = shared.join(format!("zl{i}")).unwrap();
                    d.create_dir().unwrap();
                    VfsPath::new(AltrootFS::new(d))
                })
                .collect();
            Box::new(OverlayFS::new(&roots))
        }
        Term::Fault(inner) => {
            let ctl = FaultCtl::new();
            ctx.faults.push(ctl.clone());
            Box::new(FaultFS { inner: build_fs(inner, ctx), ctl })
        }
    }
}

/// a Box<dyn FileSystem> as a FileSystem (pure forwarding)
pub struct BoxFS(pub Box<dyn FileSystem>);
impl std::fmt::Debug for BoxFS {
    fn fmt(&self, f: &mut std::fmt::Formatter<'_>) -> std::fmt::Result {
        self.0.fmt(f)
    }
}
impl FileSystem for BoxFS {
    fn read_dir(&self, path: &str) -> VfsResult<Box<dyn Iterator<Item = String> + Send>> {
        self.0.read_dir(path)
    }
    fn create_dir(&self, path: &str) -> VfsResult<()> {
        self.0.create_dir(path)
    }
    fn open_file(&self, path: &str) -> VfsResult<Box<dyn SeekAndRead + Send>> {
        self.0.open_file(path)
    }
    fn create_file(&self, path: &str) -> VfsResult<Box<dyn SeekAndWrite + Send>> {
        self.0.create_file(path)
    }
    fn append_file(&self, path: &str) -> VfsResult<Box<dyn SeekAndWrite + Send>> {
        self.0.append_file(path)
    }
    fn metadata(&self, path: &str) -> VfsResult<VfsMetadata> {
        self.0.metadata(path)
    }
    fn set_creation_time(&self, path: &str, time: SystemTime) -> VfsResult<()> {
        self.0.set_creation_time(path, time)
    }
    fn set_modification_time(&self, path: &str, time: SystemTime) -> VfsResult<()> {
        self.0.set_modification_time(path, time)
    }
    fn set_access_time(&self, path: &str, time: SystemTime) -> VfsResult<()> {
        self.0.set_access_time(path, time)
    }
    fn exists(&self, path: &str) -> VfsResult<bool> {
        self.0.exists(path)
    }
    fn remove_file(&self, path: &str) -> VfsResult<()> {
        self.0.remove_file(path)
    }
    fn remove_dir(&self, path: &str) -> VfsResult<()> {
        self.0.remove_dir(path)
    }
    fn copy_file(&self, src: &str, dest: &str) -> VfsResult<()> {
        self.0.copy_file(src, dest)
    }
    fn move_file(&self, src: &str, dest: &str) -> VfsResult<()> {
        self.0.move_file(src, dest)
    }
    fn move_dir(&self, src: &str, dest: &str) -> VfsResult<()> {
        self.0.move_dir(src, dest)
    }
}

/// Build a fresh world for a configuration term.  For a top-level overlay every layer is wrapped in
/// RecFS and its own handle is kept; for a top-level altroot the underlying filesystem is wrapped.
pub fn build(cfg: &str) -> World {
    let term = parse(cfg);
    let mut ctx = Ctx { tmp: vec![], faults: vec![] };
    let mut layers = vec![];
    let mut under = None;
    let root = match &term {
        Term::Ovl(ls) => {
            let mut roots = vec![];
            for l in ls {
                let log = RecLog::new();
                let r = VfsPath::new(RecFS { inner: build_fs(l, &mut ctx), log: log.clone() });
                layers.push(Layer { root: r.clone(), log, prefix: None });
                roots.push(r);
            }
            VfsPath::new(OverlayFS::new(&roots))
        }
        Term::OvlShared(n) => {
            // top level: every layer (a sibling directory of one MemoryFS) gets its own recording wrapper
            let shared = VfsPath::new(MemoryFS::new());
            let mut roots = vec![];
            for i in 1..=*n {
                let d = shared.join(format!("zl{i}")).unwrap();
                d.create_dir().unwrap();
                let log = RecLog::new();
                let r = VfsPath::new(RecFS { inner: Box::new(AltrootFS::new(d)), log: log.clone() });
                layers.push(Layer { root: r.clone(), log, prefix: None });
                roots.push(r);
            }
            VfsPath::new(OverlayFS::new(&roots))
        }
        Term::OvlSub(n) => {
            // top level: ONE recorded MemoryFS, the layers are its sub-paths zl1, zl2, ..
            let log = RecLog::new();
            let shared = VfsPath::new(RecFS { inner: Box::new(MemoryFS::new()), log: log.clone() });
            let mut roots = vec![];
            for i in 1..=*n {
                let d = shared.join(format!("zl{i}")).unwrap();
                d.create_dir().unwrap();
                layers.push(Layer { root: d.clone(), log: log.clone(), prefix: Some(format!("/zl{i}")) });
                roots.push(d);
            }
            VfsPath::new(OverlayFS::new(&roots))
        }
        Term::Alt(dir, inner) => {
            let log = RecLog::new();
            let u = VfsPath::new(RecFS { inner: build_fs(inner, &mut ctx), log: log.clone() });
            let p = u.join(dir.join("/")).unwrap();
            p.create_dir_all().unwrap();
            under = Some(Under { root: u, prefix: dir.clone(), log });
            VfsPath::new(AltrootFS::new(p))
        }
        t => VfsPath::new(BoxFS(build_fs(t, &mut ctx))),
    };
    World { root, term, cfg: cfg.to_string(), layers, under, faults: ctx.faults, tmp: ctx.tmp }
}
