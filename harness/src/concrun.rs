//! program enumeration and trace writing for C16 (linearizability of MemoryFS) and C17 (concurrent
//! create_dir_all), on top of conc.rs
#![cfg(feature = "hooks")]
use crate::cfg::*;
use crate::conc::*;
use crate::lts::TraceOut;
use crate::names::conc_bytes;
use crate::obs::Conc;
use rand::rngs::StdRng;
use rand::seq::SliceRandom;
use rand::{Rng, SeedableRng};
use serde_json::{json, Value};
use std::io::Write;
use std::path::Path;
use std::sync::{Arc, Mutex};

static STUCK_PROGRAMS: std::sync::atomic::AtomicUsize = std::sync::atomic::AtomicUsize::new(0);

/// per-call results are kept as JSON text inside the explorer (cheap de-duplication) and parsed for the trace
pub fn parse_results(r: &[Vec<String>]) -> Value {
    Value::Array(r.iter().map(|t| Value::Array(t.iter().map(|s| serde_json::from_str(s).unwrap_or(json!([s]))).collect())).collect())
}

fn pv(s: &str) -> Vec<String> {
    if s.is_empty() {
        vec![]
    } else {
        s.split('/').map(|x| x.to_string()).collect()
    }
}

/// initial entries: (path, kind, bytes)
type InitMap = Vec<(&'static str, &'static str, Vec<i64>)>;

fn make_world(cfg: &str, init: &InitMap, cx: &Conc, pre_remove: &[&str]) -> World {
    let w = build(cfg);
    // overlay configurations: the initial content goes to the LOWEST layer, so that later removals create markers
    let target = if w.layers.len() > 1 { w.layers[w.layers.len() - 1].root.clone() } else { w.root.clone() };
    for (p, k, d) in init {
        let q = cx.path(&target, &pv(p));
        if *k == "dir" {
            q.create_dir().expect("init dir");
        } else {
            q.create_file().expect("init file").write_all(&conc_bytes(d, cx.b)).unwrap();
        }
    }
    for p in pre_remove {
        cx.path(&w.root, &pv(p)).remove_dir_all().expect("pre-remove");
    }
    w
}

fn macro_calls(paths: &[&str]) -> Vec<Vec<Call>> {
    let mut v: Vec<Vec<Call>> = vec![];
    for p in paths {
        let pp: Vec<&str> = p.split('/').collect();
        v.push(vec![Call::new("create_dir", &pp, &[])]);
        v.push(vec![Call::new("cf_open", &pp, &[]), Call::new("close", &pp, &[2])]); // create_file + write
        v.push(vec![Call::new("ap_open", &pp, &[]), Call::new("close", &pp, &[3])]); // append
        v.push(vec![Call::new("remove_file", &pp, &[])]);
        v.push(vec![Call::new("remove_dir", &pp, &[])]);
        v.push(vec![Call::new("exists", &pp, &[])]);
        v.push(vec![Call::new("metadata", &pp, &[])]);
        v.push(vec![Call::new("read", &pp, &[])]);
    }
    v.push(vec![Call::new("read_dir", &["a"], &[])]);
    v.push(vec![Call::new("read_dir", &[], &[])]);
    v
}

struct Job {
    prop: &'static str,
    cfg: String,
    init: InitMap,
    pre_remove: Vec<&'static str>,
    progs: Vec<Vec<Call>>,
    max_preempt: Option<usize>,
    max_schedules: usize,
}

static SKIPPED_JOBS: std::sync::atomic::AtomicU64 = std::sync::atomic::AtomicU64::new(0);

pub fn run(prop: &str, tier: &str, seed: u64, out_dir: &Path, threads: usize) -> Value {
    let q = tier == "quick";
    let mut rng = StdRng::seed_from_u64(seed);
    let mut jobs: Vec<Job> = vec![];
    let universe16: Vec<Vec<String>> = ["a", "a/b", "a/c"].iter().map(|s| pv(s)).collect();
    let universe17: Vec<Vec<String>> = ["a", "a/b", "a/b/c", "a/b/c/d", "a/e", "a/b/f", "e", "e/f"].iter().map(|s| pv(s)).collect();
    if prop == "C16" {
        let inits: Vec<InitMap> = vec![
            vec![("a", "dir", vec![])],
            vec![("a", "dir", vec![]), ("a/b", "file", vec![1])],
            vec![("a", "dir", vec![]), ("a/b", "dir", vec![])],
            vec![],
            vec![("a", "file", vec![1])],
        ];
        let mc = macro_calls(&["a", "a/b", "a/c"]);
        // (1) every 2 x 1 program (unordered pairs of macro calls), exhaustively scheduled
        for (ii, init) in inits.iter().enumerate() {
            for i in 0..mc.len() {
                for j in i..mc.len() {
                    if q && ii >= 3 && !rng.gen_bool(0.4) {
                        continue;
                    }
                    jobs.push(Job { prop: "C16", cfg: "mem".into(), init: init.clone(), pre_remove: vec![], progs: vec![mc[i].clone(), mc[j].clone()], max_preempt: None, max_schedules: 4000 });
                }
            }
        }
        // (1b) curated programs, exhaustively scheduled in every run: the shapes behind earlier findings (a TLC
        // counterexample of MC_Conc: the parent is removed and re-created with ANOTHER TYPE while a child is being
        // created) and their variants; random sampling of 3+1 programs finds them only now and then
        {
            let c = |op: &str, p: &str, d: &[i64]| Call::new(op, &p.split('/').collect::<Vec<_>>(), d);
            let a_dir: InitMap = vec![("a", "dir", vec![])];
            let a_dir_b_file: InitMap = vec![("a", "dir", vec![]), ("a/b", "file", vec![1])];
            let a_dir_b_dir: InitMap = vec![("a", "dir", vec![]), ("a/b", "dir", vec![])];
            let curated: Vec<(InitMap, Vec<Vec<Call>>)> = vec![
                (a_dir.clone(), vec![vec![c("remove_dir", "a", &[]), c("cf_open", "a", &[]), c("close", "a", &[2])], vec![c("create_dir", "a/b", &[])]]),
                (a_dir.clone(), vec![vec![c("remove_dir", "a", &[]), c("cf_open", "a", &[]), c("close", "a", &[2])], vec![c("cf_open", "a/b", &[]), c("close", "a/b", &[3])]]),
                (a_dir.clone(), vec![vec![c("remove_dir", "a", &[]), c("cf_open", "a", &[]), c("close", "a", &[2])], vec![c("create_dir", "a/c", &[]), c("exists", "a/c", &[])]]),
                (a_dir_b_file.clone(), vec![vec![c("remove_file", "a/b", &[]), c("create_dir", "a/b", &[])], vec![c("ap_open", "a/b", &[]), c("close", "a/b", &[3])]]),
                (a_dir_b_file.clone(), vec![vec![c("remove_file", "a/b", &[]), c("remove_dir", "a", &[])], vec![c("cf_open", "a/b", &[]), c("close", "a/b", &[2])]]),
                (a_dir_b_file.clone(), vec![vec![c("remove_file", "a/b", &[]), c("remove_dir", "a", &[]), c("cf_open", "a", &[]), c("close", "a", &[2])], vec![c("cf_open", "a/c", &[]), c("close", "a/c", &[3])]]),
                (a_dir_b_dir.clone(), vec![vec![c("remove_dir", "a/b", &[]), c("cf_open", "a/b", &[]), c("close", "a/b", &[2])], vec![c("read_dir", "a", &[]), c("metadata", "a/b", &[])]]),
                (a_dir_b_dir.clone(), vec![vec![c("remove_dir", "a/b", &[]), c("remove_dir", "a", &[])], vec![c("create_dir", "a/c", &[]), c("read_dir", "a", &[])]]),
                (vec![], vec![vec![c("create_dir", "a", &[]), c("create_dir", "a/b", &[])], vec![c("create_dir", "a", &[]), c("remove_dir", "a", &[])]]),
            ];
            for (init, progs) in curated {
                jobs.push(Job { prop: "C16", cfg: "mem".into(), init, pre_remove: vec![], progs, max_preempt: None, max_schedules: 20000 });
            }
        }
        // (2) seeded 2 x 2, 2 x 3 and 3 x 1 programs, preemption bounded
        let n_extra = if q { 800 } else { 20000 };
        for _ in 0..n_extra {
            let init = inits.choose(&mut rng).unwrap().clone();
            let shape: &[usize] = *[&[2usize, 2][..], &[1, 2][..], &[1, 1, 1][..], &[2, 3][..], &[1, 1, 2][..], &[3, 1][..], &[3, 2][..]].choose(&mut rng).unwrap();
            let progs: Vec<Vec<Call>> = shape.iter().map(|&k| (0..k).flat_map(|_| mc.choose(&mut rng).unwrap().clone()).collect()).collect();
            jobs.push(Job { prop: "C16", cfg: "mem".into(), init, pre_remove: vec![], progs, max_preempt: Some(if q { 2 } else { 3 }), max_schedules: if q { 1500 } else { 20000 } });
        }
        // (3) the same through an altroot and an overlay over MemoryFS (adapters add read-modify-write sequences)
        for _ in 0..(if q { 40 } else { 1500 }) {
            let init = inits[..3].choose(&mut rng).unwrap().clone();
            let progs: Vec<Vec<Call>> = (0..2).map(|_| mc.choose(&mut rng).unwrap().clone()).collect();
            jobs.push(Job { prop: "C16adapter", cfg: "alt(zr,mem)".into(), init, pre_remove: vec![], progs, max_preempt: Some(2), max_schedules: 1500 });
        }
    } else {
        // C17: concurrent create_dir_all on overlapping paths
        let targets = ["a", "a/b", "a/b/c", "a/b/c/d", "a/e", "a/b/f", "e/f"];
        let cda = |p: &str| vec![Call::new("create_dir_all", &p.split('/').collect::<Vec<_>>(), &[])];
        let mut configs: Vec<(String, InitMap, Vec<&'static str>, Option<usize>)> = vec![
            ("mem".into(), vec![], vec![], None),
            ("mem".into(), vec![("a", "dir", vec![])], vec![], None),
            ("alt(zr,mem)".into(), vec![], vec![], None),
            ("phys".into(), vec![], vec![], None),
            ("alt(zr/zs,phys)".into(), vec![], vec![], None),
            ("ovl(mem,mem)".into(), vec![], vec![], Some(if q { 1 } else { 2 })),
            // a prefix that was removed through the overlay earlier: its whiteout marker is present
            ("ovl(mem,mem)".into(), vec![("a", "dir", vec![]), ("a/b", "dir", vec![])], vec!["a"], Some(if q { 1 } else { 2 })),
            ("ovl(mem,mem)".into(), vec![("a", "dir", vec![]), ("a/b", "dir", vec![])], vec![], Some(if q { 1 } else { 2 })),
            ("ovl(mem,mem,mem)".into(), vec![("a", "dir", vec![])], vec!["a"], Some(1)),
            ("ovl(phys,phys)".into(), vec![("a", "dir", vec![])], vec!["a"], Some(1)),
            ("alt(zr,ovl(mem,mem))".into(), vec![("a", "dir", vec![])], vec!["a"], Some(1)),
        ];
        if !q {
            configs.push(("ovl(mem,mem)".into(), vec![("a", "dir", vec![]), ("a/b", "dir", vec![]), ("a/b/c", "dir", vec![])], vec!["a/b"], Some(3)));
        }
        for (cfg, init, pre, bound) in configs {
            // all pairs
            for i in 0..targets.len() {
                for j in i..targets.len() {
                    if q && !rng.gen_bool(if cfg.starts_with("ovl") || cfg.contains("phys") { 0.35 } else { 0.7 }) {
                        continue;
                    }
                    jobs.push(Job { prop: "C17", cfg: cfg.clone(), init: init.clone(), pre_remove: pre.clone(), progs: vec![cda(targets[i]), cda(targets[j])], max_preempt: bound, max_schedules: if q { 3000 } else { 50000 } });
                }
            }
            // triples and quadruples, preemption bounded
            for _ in 0..(if q { 4 } else { 120 }) {
                let k = rng.gen_range(3..5);
                let progs: Vec<Vec<Call>> = (0..k).map(|_| cda(targets.choose(&mut rng).unwrap())).collect();
                jobs.push(Job { prop: "C17", cfg: cfg.clone(), init: init.clone(), pre_remove: pre.clone(), progs, max_preempt: Some(bound.unwrap_or(2).min(2)), max_schedules: if q { 600 } else { 20000 } });
            }
        }
    }
    if let Ok(f) = std::env::var("VERIF_CFGFILTER") {
        jobs.retain(|j| j.cfg == f);
    }
    // the job list is consumed from the END (pop): reverse it so that the exhaustive and curated programs come first
    jobs.reverse();
    let started = std::time::Instant::now();
    let budget = std::time::Duration::from_secs(if q { 600 } else { 1800 });
    let jobs = Arc::new(Mutex::new(jobs.into_iter().enumerate().collect::<Vec<_>>()));
    let totals = Arc::new(Mutex::new((0u64, 0u64, 0u64, 0usize, 0u64))); // programs, schedules, histories, max yields, truncated
    let samples = Arc::new(Mutex::new(Vec::<Value>::new()));
    let mut hs = vec![];
    for t in 0..threads {
        let jobs = jobs.clone();
        let totals = totals.clone();
        let samples = samples.clone();
        let out_dir = out_dir.to_path_buf();
        let u16 = universe16.clone();
        let u17 = universe17.clone();
        let propname = prop.to_string();
        hs.push(std::thread::spawn(move || {
            let mut out = TraceOut::new(&out_dir, &format!("lin-{propname}-t{t}"));
            out.per_file = 400;
            let cx = Conc::new("ascii", 1);
            loop {
                // after a number of deadlocked programs the verdict is clear: do not spend the budget on more
                if STUCK_PROGRAMS.load(std::sync::atomic::Ordering::SeqCst) > 3 {
                    break;
                }
                // wall-clock budget for the scheduled part (jobs are shuffled by construction: curated and exhaustive
                // ones first); what was not explored is simply not counted
                if started.elapsed() > budget {
                    SKIPPED_JOBS.fetch_add(1, std::sync::atomic::Ordering::SeqCst);
                    if jobs.lock().unwrap().pop().is_none() {
                        break;
                    }
                    continue;
                }
                let job = jobs.lock().unwrap().pop();
                let (jid, job) = match job {
                    Some(j) => j,
                    None => break,
                };
                let universe = if job.prop == "C17" { &u17 } else { &u16 };
                let (cfg, init, pre) = (job.cfg.clone(), job.init.clone(), job.pre_remove.clone());
                let cx2 = cx.clone();
                let mk = move || make_world(&cfg, &init, &cx2, &pre);
                let t0 = std::time::Instant::now();
                let ex = explore(&mk, &cx, universe, job.progs.clone(), job.max_preempt, job.max_schedules);
                if std::env::var("VERIF_DEBUG").is_ok() {
                    eprintln!("job {} {} threads={} bound={:?} schedules={} yields={} trunc={} {:?} {:?}", jid, job.cfg, job.progs.len(), job.max_preempt, ex.schedules, ex.max_yields, ex.truncated, t0.elapsed(),
                              job.progs.iter().map(|p| p.iter().map(|c| format!("{}:{}", c.op, c.p.join("/"))).collect::<Vec<_>>()).collect::<Vec<_>>());
                }
                if ex.histories.values().any(|h| h.3) {
                    STUCK_PROGRAMS.fetch_add(1, std::sync::atomic::Ordering::SeqCst);
                }
                let seq = sequential_outcomes(&mk, &cx, universe, &job.progs);
                {
                    let mut tt = totals.lock().unwrap();
                    tt.0 += 1;
                    tt.1 += ex.schedules as u64;
                    tt.2 += ex.histories.len() as u64;
                    tt.3 = tt.3.max(ex.max_yields);
                    tt.4 += ex.truncated as u64;
                }
                for (_k, (results, fin, sched, stuck)) in ex.histories.iter() {
                    let e = json!({"ev":"hist","prop":job.prop,"cfg":job.cfg,"job":jid,
                        "init": job.init.iter().map(|(p,k,d)| json!({"p":pv(p),"k":k,"d":d})).collect::<Vec<_>>(),
                        "pre_remove": job.pre_remove.iter().map(|p| pv(p)).collect::<Vec<_>>(),
                        "universe": universe,
                        "progs": job.progs.iter().map(|p| p.iter().map(|c| c.to_json()).collect::<Vec<_>>()).collect::<Vec<_>>(),
                        "results": parse_results(results), "final": fin, "stuck": stuck, "schedule": sched,
                        "seq": seq, "schedules": ex.schedules, "bound": job.max_preempt.map(|x| x as i64).unwrap_or(-1), "truncated": ex.truncated});
                    out.begin(&e);
                    let mut s = samples.lock().unwrap();
                    if s.len() < 3 {
                        s.push(json!({"cfg":job.cfg,"progs":e["progs"],"results":results,"schedule":sched,"schedules_explored":ex.schedules}));
                    }
                }
            }
            out.finish();
            (out.total_events, out.segments)
        }));
    }
    let mut events = 0;
    for h in hs {
        let (e, _s) = h.join().expect("conc worker");
        events += e;
    }
    // C16 free-running stress: the cooperative scheduler interleaves threads only at yield points; a lock
    // acquisition that a change ADDS without a yield point (check under one guard, act under another) is
    // invisible to it.  Real threads released by a barrier, many rounds per program; every distinct history
    // must be explained by one of the measured sequential outcomes.
    let mut c16_rounds = 0u64;
    if prop == "C16" && std::env::var("VERIF_CFGFILTER").is_err() && STUCK_PROGRAMS.load(std::sync::atomic::Ordering::SeqCst) == 0 {
        // (free-running threads have no watchdog: they are not started when the scheduled part already found a deadlock)
        let mut out = TraceOut::new(out_dir, "lin-C16-stress");
        out.per_file = 400;
        let cx = Conc::new("ascii", 1);
        let mc = macro_calls(&["a", "a/b", "a/c"]);
        let inits: Vec<InitMap> = vec![
            vec![("a", "dir", vec![])],
            vec![("a", "dir", vec![]), ("a/b", "file", vec![1])],
            vec![("a", "dir", vec![]), ("a/b", "dir", vec![])],
        ];
        // program shapes in which a check and the act it guards race with another thread's mutation of the same
        // path or its parent (write session / create / remove / read on a/b against remove / create of a/b and a)
        let mcx = |i: usize| mc[i].clone();
        let idx = |path: usize, k: usize| path * 8 + k; // macro_calls layout: 8 macro calls per path (0 = "a", 1 = "a/b", 2 = "a/c")
        let racy: Vec<Vec<Vec<Call>>> = vec![
            vec![mcx(idx(1, 1)), mcx(idx(1, 3))],                                   // create_file session || remove_file
            vec![mcx(idx(1, 2)), mcx(idx(1, 3))],                                   // append session || remove_file
            vec![mcx(idx(1, 1)), [mcx(idx(1, 3)), mcx(idx(0, 4))].concat()],        // session || remove_file; remove_dir(parent)
            vec![mcx(idx(1, 0)), mcx(idx(0, 4))],                                   // create_dir(a/b) || remove_dir(a)
            vec![mcx(idx(1, 1)), mcx(idx(0, 4))],                                   // create_file(a/b) || remove_dir(a)
            vec![mcx(idx(1, 1)), mcx(idx(1, 0))],                                   // create_file || create_dir same path
            vec![mcx(idx(1, 2)), [mcx(idx(1, 3)), mcx(idx(1, 0))].concat()],        // append || remove_file; create_dir
            vec![mcx(idx(1, 7)), mcx(idx(1, 1))],                                   // read || rewrite
            vec![mcx(idx(1, 4)), mcx(idx(2, 1))],                                   // remove_dir(a/b) || create_file(a/c)
            vec![mcx(idx(0, 4)), mcx(idx(2, 0))],                                   // remove_dir(a) || create_dir(a/c)
            vec![mcx(idx(1, 1)), mcx(idx(1, 1))],                                   // two sessions on one path
            vec![mcx(idx(1, 1)), mcx(idx(1, 3)), mcx(idx(1, 5))],                   // session || remove || exists
        ];
        let n_random = if q { 30 } else { 500 };
        for pi in 0..(racy.len() * inits.len() + n_random) {
            let init = inits[pi % inits.len()].clone();
            let (progs, rounds): (Vec<Vec<Call>>, usize) = if pi < racy.len() * inits.len() {
                (racy[pi / inits.len()].clone(), if q { 1500 } else { 40000 })
            } else {
                let k = if pi % 5 == 0 { 3 } else { 2 };
                ((0..k).map(|_| (0..rng.gen_range(1..3)).flat_map(|_| mc.choose(&mut rng).unwrap().clone()).collect()).collect(), if q { 150 } else { 600 })
            };
            let k = progs.len();
            let cx2 = cx.clone();
            let init2 = init.clone();
            let mk = move || make_world("mem", &init2, &cx2, &[]);
            let mut seen: std::collections::BTreeMap<String, (Vec<Vec<String>>, Value)> = std::collections::BTreeMap::new();
            for _round in 0..rounds {
                let w = mk();
                let barrier = Arc::new(std::sync::atomic::AtomicUsize::new(0));
                let results: Vec<Vec<String>> = std::thread::scope(|sc| {
                    let hs: Vec<_> = progs
                        .iter()
                        .map(|prog| {
                            let root = w.root.clone();
                            let b = barrier.clone();
                            let cxr = &cx;
                            sc.spawn(move || {
                                let mut slot = Slot::default();
                                // spin barrier: all threads start within nanoseconds of each other
                                b.fetch_add(1, std::sync::atomic::Ordering::SeqCst);
                                let mut spins = 0u32;
                                while b.load(std::sync::atomic::Ordering::SeqCst) < k {
                                    spins += 1;
                                    if spins > 2000 {
                                        std::thread::yield_now(); // (an oversubscribed machine: do not burn the partner's time slice)
                                    } else {
                                        std::hint::spin_loop();
                                    }
                                }
                                let mut res = vec![];
                                for c in prog {
                                    res.push(run_call(&root, cxr, c, &mut slot));
                                }
                                if let Some(h) = slot.h.take() {
                                    let _ = crate::obs::guard(move || drop(h));
                                }
                                res
                            })
                        })
                        .collect();
                    hs.into_iter().map(|h| h.join().unwrap_or_else(|_| vec!["[\"panic\"]".to_string()])).collect()
                });
                let fin = crate::conc::snapshot(&w.root, &cx, &universe16);
                c16_rounds += 1;
                seen.entry(format!("{:?}|{}", results, fin)).or_insert((results, fin));
            }
            let seq = sequential_outcomes(&mk, &cx, &universe16, &progs);
            for (_k, (results, fin)) in seen {
                out.begin(&json!({"ev":"hist","prop":"C16","cfg":"mem","job":-1,
                    "init": init.iter().map(|(p,k,d)| json!({"p":pv(p),"k":k,"d":d})).collect::<Vec<_>>(),
                    "pre_remove":[],"universe":universe16,
                    "progs": progs.iter().map(|p| p.iter().map(|c| c.to_json()).collect::<Vec<_>>()).collect::<Vec<_>>(),
                    "results":parse_results(&results),"final":fin,"stuck":false,"schedule":["free-running"],"seq":seq,"schedules":1,"bound":-1,"truncated":false}));
                events += 1;
            }
        }
        out.finish();
    }
    // C17 "randomised stress on PhysicalFS": free-running OS threads (no scheduler: the races are inside the
    // operating-system calls, where no yield point can be placed), released together, many rounds
    let mut stress_rounds = 0u64;
    if prop == "C17" && std::env::var("VERIF_CFGFILTER").is_err() && STUCK_PROGRAMS.load(std::sync::atomic::Ordering::SeqCst) == 0 {
        let targets = ["a", "a/b", "a/b/c", "a/b/c/d", "a/e", "a/b/f", "e/f"];
        let mut out = TraceOut::new(out_dir, "lin-C17-stress");
        out.per_file = 400;
        let cx = Conc::new("ascii", 1);
        for cfg in ["phys", "alt(zr/zs,phys)", "ovl(phys,phys)", "alt(zr,ovl(phys,mem))"] {
            for round in 0..(if q { 60 } else { 1500 }) {
                let k = 2 + (round % 3);
                let picks: Vec<&str> = (0..k).map(|i| if round % 4 == 0 { targets[3] } else { *targets.choose(&mut rng).unwrap_or(&targets[i]) }).collect();
                let w = make_world(cfg, &vec![], &cx, &[]);
                let barrier = Arc::new(std::sync::Barrier::new(k));
                let results: Vec<Vec<String>> = std::thread::scope(|sc| {
                    let hs: Vec<_> = picks
                        .iter()
                        .map(|p| {
                            let path = cx.path(&w.root, &pv(p));
                            let b = barrier.clone();
                            sc.spawn(move || {
                                b.wait();
                                match crate::obs::guard(|| path.create_dir_all()) {
                                    Err(()) => vec!["[\"panic\"]".to_string()],
                                    Ok(Err(e)) => vec![format!("[\"{}\"]", crate::obs::class_of(&e))],
                                    Ok(Ok(())) => vec!["[\"ok\"]".to_string()],
                                }
                            })
                        })
                        .collect();
                    hs.into_iter().map(|h| h.join().unwrap_or_else(|_| vec!["[\"panic\"]".to_string()])).collect()
                });
                let fin = crate::conc::snapshot(&w.root, &cx, &universe17);
                let progs: Vec<Value> = picks.iter().map(|p| json!([Call::new("create_dir_all", &p.split('/').collect::<Vec<_>>(), &[]).to_json()])).collect();
                out.begin(&json!({"ev":"hist","prop":"C17","cfg":cfg,"job":-1,"init":[],"pre_remove":[],"universe":universe17,"progs":progs,
                    "results":parse_results(&results),"final":fin,"stuck":false,"schedule":["free-running"],"seq":[],"schedules":1,"bound":-1,"truncated":false}));
                stress_rounds += 1;
                events += 1;
            }
        }
        out.finish();
    }
    let tt = totals.lock().unwrap();
    json!({"cfg":"conc","mode":prop,"names":"ascii","b":1,"events":events,"segments":events,"programs":tt.0,"schedules":tt.1,"histories":tt.2,
           "max_yield_points":tt.3,"truncated_explorations":tt.4,"free_running_stress_rounds":stress_rounds + c16_rounds,"jobs_skipped_by_time_budget":SKIPPED_JOBS.load(std::sync::atomic::Ordering::SeqCst),"edges_run":tt.1,"distinct_state_ops":tt.2,"samples":*samples.lock().unwrap()})
}

/// explore ONE program given as JSON {"cfg","init":[{p,k,d}],"pre_remove":[[..]],"progs":[[{op,p,c}]],"bound":n|-1,"prop"}
/// (replay of a recorded history / of a TLC counterexample) and print its distinct histories
pub fn run_one(spec: &Value, out_dir: &Path) -> Value {
    let cx = Conc::new("ascii", 1);
    let pathv = |v: &Value| -> Vec<String> { v.as_array().unwrap().iter().map(|x| x.as_str().unwrap().to_string()).collect() };
    let init: Vec<(String, String, Vec<i64>)> = spec["init"].as_array().unwrap().iter()
        .map(|e| (pathv(&e["p"]).join("/"), e["k"].as_str().unwrap().to_string(), e["d"].as_array().unwrap().iter().map(|x| x.as_i64().unwrap()).collect())).collect();
    let pre: Vec<String> = spec["pre_remove"].as_array().map(|a| a.iter().map(|p| pathv(p).join("/")).collect()).unwrap_or_default();
    let progs: Vec<Vec<Call>> = spec["progs"].as_array().unwrap().iter()
        .map(|t| t.as_array().unwrap().iter().map(|c| Call { op: c["op"].as_str().unwrap().to_string(), p: pathv(&c["p"]), c: c["c"].as_array().unwrap().iter().map(|x| x.as_i64().unwrap()).collect() }).collect()).collect();
    let universe: Vec<Vec<String>> = spec["universe"].as_array().unwrap().iter().map(pathv).collect();
    let cfg = spec["cfg"].as_str().unwrap().to_string();
    let bound = spec["bound"].as_i64().unwrap_or(-1);
    let cx2 = cx.clone();
    let (cfg2, init2, pre2) = (cfg.clone(), init.clone(), pre.clone());
    let mk = move || {
        let w = build(&cfg2);
        let target = if w.layers.len() > 1 { w.layers[w.layers.len() - 1].root.clone() } else { w.root.clone() };
        for (p, k, d) in &init2 {
            let q = cx2.path(&target, &pv(p));
            if k == "dir" { q.create_dir().expect("init dir"); } else { q.create_file().expect("init file").write_all(&conc_bytes(d, cx2.b)).unwrap(); }
        }
        for p in &pre2 {
            cx2.path(&w.root, &pv(p)).remove_dir_all().expect("pre-remove");
        }
        w
    };
    let ex = explore(&mk, &cx, &universe, progs.clone(), if bound < 0 { None } else { Some(bound as usize) }, 200000);
    let seq = sequential_outcomes(&mk, &cx, &universe, &progs);
    let mut out = TraceOut::new(out_dir, "lin-one");
    let mut hist = vec![];
    for (_k, (results, fin, sched, stuck)) in ex.histories.iter() {
        let e = json!({"ev":"hist","prop":spec["prop"],"cfg":cfg,"job":0,"init":spec["init"],"pre_remove":spec["pre_remove"],"universe":universe,"progs":spec["progs"],
            "results":parse_results(results),"final":fin,"stuck":stuck,"schedule":sched,"seq":seq,"schedules":ex.schedules,"bound":bound,"truncated":ex.truncated});
        out.begin(&e);
        hist.push(json!({"results":results,"final":fin,"schedule":sched}));
    }
    out.finish();
    json!({"schedules":ex.schedules,"histories":hist,"sequential_outcomes":seq.len(),"events":out.total_events,"segments":out.total_events})
}
