//! C14 / C04 driver: walks the LTS of the handle machines (MC_Handles) on read and write handles
//! obtained from real backends (coverage guided: untested edges first) and records every call with
//! its return value and what a fresh reader sees afterwards.  Trace_Handles judges.
use crate::cfg::*;
use crate::names::*;
use crate::obs::*;
use rand::rngs::StdRng;
use rand::seq::SliceRandom;
use rand::{Rng, SeedableRng};
use serde_json::{json, Value};
use std::collections::{HashMap, HashSet};
use std::io::{BufRead, Read, Seek, SeekFrom, Write};
use std::path::Path;
use vfs::*;

pub struct HEdge {
    pub o: Value,
    pub allowed: Vec<String>,
    pub v: Value,
    pub to: usize,
}
pub struct HLts {
    pub states: Vec<Value>,
    pub index: HashMap<String, usize>,
    pub edges: Vec<Vec<HEdge>>,
    pub nedges: usize,
}
fn inner(line: &str) -> Option<(String, Value)> {
    if !line.starts_with("<<\"") {
        return None;
    }
    let tag_end = line[3..].find('"')? + 3;
    let tag = line[3..tag_end].to_string();
    let start = line[tag_end + 1..].find('"')? + tag_end + 1;
    let end = line.rfind('"')?;
    let s: String = serde_json::from_str(&line[start..=end]).ok()?;
    Some((tag, serde_json::from_str(&s).ok()?))
}
impl HLts {
    pub fn load(path: &Path) -> HLts {
        let f = std::io::BufReader::new(std::fs::File::open(path).expect("handles lts"));
        let mut states = vec![];
        let mut index = HashMap::new();
        let mut raw = vec![];
        for line in f.lines() {
            if let Some((tag, v)) = inner(&line.unwrap()) {
                if tag == "STATE" {
                    let k = v.to_string();
                    if !index.contains_key(&k) {
                        index.insert(k, states.len());
                        states.push(v);
                    }
                } else if tag == "EDGE" {
                    raw.push(v);
                }
            }
        }
        let mut edges: Vec<Vec<HEdge>> = (0..states.len()).map(|_| vec![]).collect();
        let nedges = raw.len();
        for v in raw {
            let fi = index[&v["from"].to_string()];
            let ti = index[&v["to"].to_string()];
            edges[fi].push(HEdge {
                o: v["o"].clone(),
                allowed: v["allowed"].as_array().unwrap().iter().map(|s| s.as_str().unwrap().to_string()).collect(),
                v: v["v"].clone(),
                to: ti,
            });
        }
        HLts { states, index, edges, nedges }
    }
}

/// async handles driven through the std traits by blocking on every call (the async port's write
/// handles are Write only: seeking them is not part of the API)
struct BlockingReader(Box<dyn vfs::async_vfs::SeekAndRead + Send + Unpin>);
impl Read for BlockingReader {
    fn read(&mut self, buf: &mut [u8]) -> std::io::Result<usize> {
        futures::executor::block_on(async_std::io::ReadExt::read(&mut self.0, buf))
    }
}
impl Seek for BlockingReader {
    fn seek(&mut self, pos: SeekFrom) -> std::io::Result<u64> {
        futures::executor::block_on(async_std::io::prelude::SeekExt::seek(&mut self.0, pos))
    }
}
struct BlockingWriter(Box<dyn async_std::io::Write + Send + Unpin>);
impl Write for BlockingWriter {
    fn write(&mut self, buf: &[u8]) -> std::io::Result<usize> {
        futures::executor::block_on(async_std::io::WriteExt::write(&mut self.0, buf))
    }
    fn flush(&mut self) -> std::io::Result<()> {
        futures::executor::block_on(async_std::io::WriteExt::flush(&mut self.0))
    }
}
impl Seek for BlockingWriter {
    fn seek(&mut self, _pos: SeekFrom) -> std::io::Result<u64> {
        Err(std::io::Error::new(std::io::ErrorKind::Other, "async write handles cannot seek"))
    }
}

enum Target {
    Sync(World),
    Async(crate::aworld::AWorld),
}
struct Ctx {
    w: Target,
    cx: Conc,
    path: Vec<String>,
    wh: Option<Box<dyn SeekAndWrite + Send>>,
    rh: Option<Box<dyn SeekAndRead + Send>>,
}

fn io_cls<T>(r: Result<std::io::Result<T>, ()>) -> (&'static str, Option<T>) {
    match r {
        Err(()) => ("panic", None),
        Ok(Err(_)) => ("err", None),
        Ok(Ok(v)) => ("ok", Some(v)),
    }
}

impl Ctx {
    fn open_w(&self, append: bool) -> Result<VfsResult<Box<dyn SeekAndWrite + Send>>, ()> {
        match &self.w {
            Target::Sync(w) => {
                let p = self.cx.path(&w.root, &self.path);
                guard(|| if append { p.append_file() } else { p.create_file() })
            }
            Target::Async(w) => {
                let p = crate::aworld::apath(&self.cx, &w.root, &self.path);
                guard(|| w.rt.block_on(async { if append { p.append_file().await } else { p.create_file().await } }).map(|h| Box::new(BlockingWriter(h)) as Box<dyn SeekAndWrite + Send>))
            }
        }
    }
    fn open_r(&self) -> Result<VfsResult<Box<dyn SeekAndRead + Send>>, ()> {
        match &self.w {
            Target::Sync(w) => {
                let p = self.cx.path(&w.root, &self.path);
                guard(|| p.open_file())
            }
            Target::Async(w) => {
                let p = crate::aworld::apath(&self.cx, &w.root, &self.path);
                guard(|| w.rt.block_on(p.open_file()).map(|h| Box::new(BlockingReader(h)) as Box<dyn SeekAndRead + Send>))
            }
        }
    }
    fn remove(&self) -> Result<VfsResult<()>, ()> {
        match &self.w {
            Target::Sync(w) => {
                let p = self.cx.path(&w.root, &self.path);
                guard(|| p.remove_file())
            }
            Target::Async(w) => {
                let p = crate::aworld::apath(&self.cx, &w.root, &self.path);
                guard(|| w.rt.block_on(p.remove_file()))
            }
        }
    }
    fn simple(&self, op: &str, n: usize) -> Result<VfsResult<()>, ()> {
        match &self.w {
            Target::Sync(w) => {
                let p = self.cx.path(&w.root, &self.path);
                guard(|| match op {
                    "mkdir" => p.create_dir(),
                    "rmdir" => p.remove_dir(),
                    _ => p.set_creation_time(tick(n)),
                })
            }
            Target::Async(w) => {
                let p = crate::aworld::apath(&self.cx, &w.root, &self.path);
                guard(|| w.rt.block_on(async {
                    match op {
                        "mkdir" => p.create_dir().await,
                        "rmdir" => p.remove_dir().await,
                        _ => p.set_creation_time(tick(n)).await,
                    }
                }))
            }
        }
    }
    fn md(&self) -> (i64, String, String) {
        let r = match &self.w {
            Target::Sync(w) => {
                let p = self.cx.path(&w.root, &self.path);
                guard(|| p.metadata())
            }
            Target::Async(w) => {
                let p = crate::aworld::apath(&self.cx, &w.root, &self.path);
                guard(|| w.rt.block_on(p.metadata()))
            }
        };
        match r {
            Ok(Ok(m)) => (abs_len(m.len, self.cx.b), if m.file_type == VfsFileType::Directory { "dir".into() } else { "file".into() }, time_str(m.created)),
            _ => (-2, "none".into(), "none".into()),
        }
    }
    fn md_len(&self) -> i64 {
        let r = match &self.w {
            Target::Sync(w) => {
                let p = self.cx.path(&w.root, &self.path);
                guard(|| p.metadata())
            }
            Target::Async(w) => {
                let p = crate::aworld::apath(&self.cx, &w.root, &self.path);
                guard(|| w.rt.block_on(p.metadata()))
            }
        };
        match r {
            Ok(Ok(m)) => abs_len(m.len, self.cx.b),
            _ => -2,
        }
    }
    fn fresh(&self) -> Value {
        let (len, k, cr) = self.md();
        match self.open_r() {
            Err(()) => json!({"c":"panic","v":[],"len":len,"k":k,"cr":cr}),
            Ok(Err(e)) => json!({"c":class_of(&e),"v":[],"len":len,"k":k,"cr":cr}),
            Ok(Ok(mut h)) => {
                let mut b = vec![];
                match guard(|| h.read_to_end(&mut b)) {
                    Err(()) => {
                        std::mem::forget(h);
                        json!({"c":"panic","v":[],"len":len,"k":k,"cr":cr})
                    }
                    Ok(Err(_)) => json!({"c":"err","v":[],"len":len,"k":k,"cr":cr}),
                    Ok(Ok(_)) => json!({"c":"ok","v":abs_bytes(&b, self.cx.b),"len":len,"k":k,"cr":cr}),
                }
            }
        }
    }
    fn seek_from(&self, o: &Value) -> SeekFrom {
        let off = o["off"].as_i64().unwrap() * self.cx.b as i64;
        match o["wh"].as_str().unwrap() {
            "start" => SeekFrom::Start(off.max(0) as u64),
            "cur" => SeekFrom::Current(off),
            _ => SeekFrom::End(off),
        }
    }
    /// execute one handle operation; returns (class, value)
    fn exec(&mut self, o: &Value) -> (String, Value) {
        let b = self.cx.b;
        let op = o["op"].as_str().unwrap();
        let vfs_cls = |r: Result<VfsResult<()>, ()>| match r {
            Err(()) => "panic".to_string(),
            Ok(Err(e)) => class_of(&e).to_string(),
            Ok(Ok(())) => "ok".to_string(),
        };
        match op {
            "open_create" | "open_append" => match self.open_w(op == "open_append") {
                Err(()) => ("panic".into(), json!([])),
                Ok(Err(e)) => (class_of(&e).into(), json!([])),
                Ok(Ok(h)) => {
                    self.wh = Some(h);
                    ("ok".into(), json!([]))
                }
            },
            "open_read" => match self.open_r() {
                Err(()) => ("panic".into(), json!([])),
                Ok(Err(e)) => (class_of(&e).into(), json!([])),
                Ok(Ok(h)) => {
                    self.rh = Some(h);
                    ("ok".into(), json!([]))
                }
            },
            "write" => {
                let bytes = conc_bytes(&o["c"].as_array().unwrap().iter().map(|x| x.as_i64().unwrap()).collect::<Vec<_>>(), b);
                let h = self.wh.as_mut().unwrap();
                let (c, _) = io_cls(guard(|| h.write_all(&bytes)));
                if c == "panic" {
                    std::mem::forget(self.wh.take());
                }
                (c.into(), json!([]))
            }
            "bseek" => {
                // offsets near multiples of 2^62, written [hi, lo] = hi * 2^62 + lo (TLC has 32-bit integers)
                let hi = o["hi"].as_i64().unwrap() as i128;
                let lo = o["lo"].as_i64().unwrap() as i128;
                let v: i128 = hi * (1i128 << 62) + lo;
                let sf = match o["w"].as_str().unwrap() {
                    "start" => SeekFrom::Start(v as u64),
                    "cur" => SeekFrom::Current(v as i64),
                    _ => SeekFrom::End(v as i64),
                };
                let r = if self.wh.is_some() {
                    let h = self.wh.as_mut().unwrap();
                    guard(|| h.seek(sf))
                } else {
                    let h = self.rh.as_mut().unwrap();
                    guard(|| h.seek(sf))
                };
                let pair = |p: u64| -> Value {
                    let k = 1u128 << 62;
                    let hi = ((p as u128) + k / 2) / k;
                    let lo = p as i128 - (hi * k) as i128;
                    json!([hi as i64, if lo.abs() < (1 << 30) { lo as i64 } else { 999_999_999 }])
                };
                match r {
                    Err(()) => {
                        std::mem::forget(self.wh.take());
                        std::mem::forget(self.rh.take());
                        ("panic".into(), json!([]))
                    }
                    Ok(Err(_)) => ("err".into(), json!([])),
                    Ok(Ok(p)) => ("ok".into(), pair(p)),
                }
            }
            "seek_w" | "seek_r" | "xseek" => {
                let sf = if op == "xseek" {
                    match o["n"].as_i64().unwrap() {
                        0 => SeekFrom::Current(i64::MIN),
                        1 => SeekFrom::End(i64::MIN),
                        2 => SeekFrom::Current(i64::MAX),
                        3 => SeekFrom::End(i64::MAX),
                        4 => SeekFrom::Start(u64::MAX),
                        5 => SeekFrom::Start(i64::MAX as u64),
                        6 => SeekFrom::Current(-1),
                        _ => SeekFrom::End(-1 - (1 << 40)),
                    }
                } else {
                    self.seek_from(o)
                };
                let res = if self.wh.is_some() {
                    let h = self.wh.as_mut().unwrap();
                    io_cls(guard(|| h.seek(sf)))
                } else {
                    let h = self.rh.as_mut().unwrap();
                    io_cls(guard(|| h.seek(sf)))
                };
                if res.0 == "panic" {
                    std::mem::forget(self.wh.take());
                    std::mem::forget(self.rh.take());
                }
                // after an extreme seek also try a read / write of one block: must not panic either
                if op == "xseek" && res.0 != "panic" {
                    // (no write after an extreme seek on a write handle: zero-filling a gap of 2^63 bytes is
                    // outside "reads and seeks at any offset" and would only exercise the allocator)
                    let extra = if self.wh.is_some() {
                        "ok"
                    } else {
                        let h = self.rh.as_mut().unwrap();
                        let mut buf = vec![0u8; 3];
                        let r1 = io_cls(guard(|| h.read(&mut buf))).0;
                        let mut empty: [u8; 0] = [];
                        let r2 = io_cls(guard(|| h.read(&mut empty))).0;
                        if r1 == "panic" || r2 == "panic" { "panic" } else { "ok" }
                    };
                    if extra == "panic" {
                        std::mem::forget(self.wh.take());
                        std::mem::forget(self.rh.take());
                        return ("panic".into(), json!([]));
                    }
                    // a write handle in an arbitrary state must not panic on drop either
                    if let Some(h) = self.wh.take() {
                        if guard(move || drop(h)).is_err() {
                            return ("panic".into(), json!([]));
                        }
                    }
                    self.rh = None;
                }
                (res.0.into(), match res.1 {
                    Some(p) => json!([if p % b as u64 == 0 { (p / b as u64) as i64 } else { -1 }]),
                    None => json!([]),
                })
            }
            "flush" => {
                let h = self.wh.as_mut().unwrap();
                let (c, _) = io_cls(guard(|| h.flush()));
                if c == "panic" {
                    std::mem::forget(self.wh.take());
                }
                (c.into(), json!([]))
            }
            "close_w" => {
                let h = self.wh.take().unwrap();
                match guard(move || drop(h)) {
                    Ok(()) => ("ok".into(), json!([])),
                    Err(()) => ("panic".into(), json!([])),
                }
            }
            "close_r" => {
                self.rh = None;
                ("ok".into(), json!([]))
            }
            "read" => {
                let n = o["n"].as_u64().unwrap() as usize * b;
                let h = self.rh.as_mut().unwrap();
                let mut buf = vec![0u8; n];
                // one read call (zero-length buffers included); if it is short, keep reading: the
                // concatenation must still be the right bytes
                let mut got = 0usize;
                let mut cls = "ok";
                loop {
                    let r = guard(|| h.read(&mut buf[got..]));
                    match r {
                        Err(()) => {
                            cls = "panic";
                            break;
                        }
                        Ok(Err(_)) => {
                            cls = "err";
                            break;
                        }
                        Ok(Ok(0)) => break,
                        Ok(Ok(k)) => {
                            got += k;
                            if got >= n {
                                break;
                            }
                        }
                    }
                }
                if cls == "panic" {
                    std::mem::forget(self.rh.take());
                }
                (cls.into(), json!(abs_bytes(&buf[..got], b)))
            }
            "remove" => (vfs_cls(self.remove()), json!([])),
            "mkdir" | "rmdir" | "set_cr" => {
                let r = self.simple(op, o["n"].as_u64().unwrap_or(0) as usize);
                let c = match r {
                    Err(()) => "panic".to_string(),
                    Ok(Err(e)) => class_of(&e).to_string(),
                    Ok(Ok(())) => "ok".to_string(),
                };
                (c, json!([]))
            }
            other => panic!("unknown handle op {other}"),
        }
    }
}

pub struct HOpts {
    pub cfg: String,
    pub names: String,
    pub b: usize,
    pub seed: u64,
    pub walks: usize,
    pub len: usize,
    pub out: std::path::PathBuf,
    pub lower_file: bool, // overlay: the file starts in the lower layer (copy-up sessions)
    pub extreme: bool,    // end walks with an extreme-offset seek (C13)
    pub depth: usize,     // the file lives at depth 1 or 2
    pub no_zero_read: bool, // avoid-rule of a known finding: skip zero-length reads
}

pub fn run(lts: &HLts, o: &HOpts) -> Value {
    let is_async = o.cfg.starts_with("async:");
    let base_cfg = o.cfg.strip_prefix("async:").unwrap_or(&o.cfg).to_string();
    let term = parse(&base_cfg);
    let phys = term.has_phys();
    let mut rng = StdRng::seed_from_u64(o.seed);
    let mut out = crate::lts::TraceOut::new(&o.out, &format!("h-{}-{}-{}", o.cfg.chars().map(|c| if c.is_ascii_alphanumeric() { c } else { '_' }).collect::<String>(), o.names, o.b));
    let mut tested: HashSet<(usize, usize)> = HashSet::new();
    let mut steps = 0u64;
    let mut fast_bad = 0u64;
    let init_idx = lts.index[&lts.states[0].to_string()];
    for _w in 0..o.walks {
        let cx = Conc::new(&o.names, o.b);
        let path: Vec<String> = if o.depth == 2 { vec!["a".into(), "b".into()] } else { vec!["a".into()] };
        let mut cur = init_idx;
        let mut file0 = json!({"ex":false,"d":[]});
        let w = if is_async {
            let aw = crate::aworld::abuild(&base_cfg, false);
            if o.depth == 2 {
                aw.rt.block_on(crate::aworld::apath(&cx, &aw.root, &path[..1].to_vec()).create_dir()).unwrap();
            }
            Target::Async(aw)
        } else {
            let w = build(&base_cfg);
            // parent directory / lower-layer file
            if o.depth == 2 {
                if o.lower_file && w.layers.len() > 1 {
                    cx.path(&w.layers[w.layers.len() - 1].root, &path[..1].to_vec()).create_dir().unwrap();
                } else {
                    cx.path(&w.root, &path[..1].to_vec()).create_dir().unwrap();
                }
            }
            if o.lower_file && w.layers.len() > 1 {
                let d = vec![2i64, 1];
                let lp = cx.path(&w.layers[w.layers.len() - 1].root, &path);
                lp.create_file().unwrap().write_all(&conc_bytes(&d, o.b)).unwrap();
                file0 = json!({"ex":true,"d":d});
                // the LTS state "file exists with bytes d, no handle open"
                let key = lts.states.iter().position(|s| s["ex"] == true && s["file"] == json!(d) && s["w"]["open"] == false && s["r"]["open"] == false && s["w"]["det"] == false);
                match key {
                    Some(k) => cur = k,
                    None => continue,
                }
            }
            Target::Sync(w)
        };
        let mut ctx = Ctx { w, cx, path: path.clone(), wh: None, rh: None };
        let sup: Vec<&str> = if is_async { crate::aworld::asup(&term) } else { term.sup() };
        out.begin(&json!({"ev":"hinit","cfg":o.cfg,"names":o.names,"b":o.b,"path":path,"file0":file0,"sup":sup}));
        for step in 0..o.len {
            let st = &lts.states[cur];
            let app = st["w"]["app"] == true;
            let cand: Vec<usize> = (0..lts.edges[cur].len())
                .filter(|&i| {
                    let e = &lts.edges[cur][i];
                    // O_APPEND semantics differ by design: no seeks on append handles of physical files;
                    // the async port's write handles are Write only
                    !(phys && app && e.o["op"] == "seek_w") && !(is_async && e.o["op"] == "seek_w")
                        && !(o.no_zero_read && e.o["op"] == "read" && e.o["n"] == 0)
                })
                .collect();
            if cand.is_empty() {
                break;
            }
            let untested: Vec<usize> = cand.iter().copied().filter(|i| !tested.contains(&(cur, *i))).collect();
            let ei = if !untested.is_empty() && rng.gen_bool(0.85) { *untested.choose(&mut rng).unwrap() } else { *cand.choose(&mut rng).unwrap() };
            tested.insert((cur, ei));
            let e = &lts.edges[cur][ei];
            let (cls, v) = ctx.exec(&e.o);
            let fresh = ctx.fresh();
            let mut oj = e.o.clone();
            if oj["op"] == "set_cr" {
                oj["tv"] = json!(time_str(Some(tick(oj["n"].as_u64().unwrap_or(0) as usize))));
            }
            out.put(&json!({"ev":"hcall","o":oj,"res":{"c":cls,"v":v},"fresh":fresh}));
            steps += 1;
            let ok = e.allowed.iter().any(|a| *a == cls) && (cls != "ok" || e.o["op"] == "read" && v == e.v || e.o["op"] != "read" && (e.v.as_array().map(|a| a.is_empty()).unwrap_or(true) || v == e.v));
            if !ok {
                fast_bad += 1;
                break;
            }
            cur = e.to;
            if o.extreme && step + 1 == o.len && rng.gen_bool(0.5) {
                let st = &lts.states[cur];
                // (the async port's write handles are AsyncWrite only: they cannot seek)
                let async_writer = o.cfg.starts_with("async:") && st["w"]["open"] == true;
                if (st["w"]["open"] == true || st["r"]["open"] == true) && !async_writer {
                    // a script of seeks with extreme offsets whose outcome the integer model determines:
                    // [whence, hi, lo]  (u64::MAX = [4,-1], i64::MAX = [2,-1], i64::MIN = [-2,0], 2^63 = [2,0])
                    const CAT: [(&str, i64, i64); 16] = [
                        ("start", 4, -1), ("cur", 0, 1), ("cur", 0, 0), ("cur", 0, -1), ("start", 2, 0), ("cur", 2, -1), ("cur", -2, 0), ("end", 2, -1),
                        ("end", -2, 0), ("start", 2, -1), ("cur", 0, 2), ("end", 0, -1000), ("start", 0, 5), ("cur", 0, -7), ("end", 0, 3), ("start", 1, 0),
                    ];
                    // a third of the scripts is the catalogue in order (u64::MAX, +1, 0, -1, 2^63, +i64::MAX, +i64::MIN, ...)
                    let canonical = rng.gen_bool(0.33);
                    let n = if canonical { 9 } else { rng.gen_range(4..11) };
                    for si in 0..n {
                        let (w, hi, lo) = if canonical { CAT[si] } else { CAT[rng.gen_range(0..CAT.len())] };
                        let lo = lo * o.b as i64;
                        let bo = json!({"op":"bseek","c":[],"wh":"","off":0,"n":0,"w":w,"hi":hi,"lo":lo,"b":o.b});
                        let (cls, v) = ctx.exec(&bo);
                        out.put(&json!({"ev":"hcall","o":bo,"res":{"c":cls,"v":v},"fresh":{"c":"skip","v":[],"len":0,"k":"none","cr":"none"}}));
                        steps += 1;
                        if cls == "panic" {
                            break;
                        }
                    }
                    // a read after the script must not panic (judged as an extreme seek: no panic)
                    if ctx.rh.is_some() {
                        let xo = json!({"op":"xseek","c":[],"wh":"","off":0,"n":6});
                        let (cls, v) = ctx.exec(&xo);
                        out.put(&json!({"ev":"hcall","o":xo,"res":{"c":cls,"v":v},"fresh":{"c":"skip","v":[],"len":0,"k":"none","cr":"none"}}));
                        steps += 1;
                    }
                }
            } else if o.extreme && step + 1 == o.len {
                let st = &lts.states[cur];
                if st["w"]["open"] == true || st["r"]["open"] == true {
                    let xo = json!({"op":"xseek","c":[],"wh":"","off":0,"n":rng.gen_range(0..8)});
                    let (cls, v) = ctx.exec(&xo);
                    let fresh = ctx.fresh();
                    out.put(&json!({"ev":"hcall","o":xo,"res":{"c":cls,"v":v},"fresh":fresh}));
                    steps += 1;
                }
            }
        }
        // drop whatever is still open (a panic here is recorded as one more event)
        if let Some(h) = ctx.wh.take() {
            if guard(move || drop(h)).is_err() {
                out.put(&json!({"ev":"hcall","o":{"op":"xseek","c":[],"wh":"","off":0,"n":99},"res":{"c":"panic","v":[]},"fresh":{"c":"skip","v":[],"len":0,"k":"none","cr":"none"}}));
            }
        }
    }
    out.finish();
    json!({"cfg":o.cfg,"mode":"handles","names":o.names,"b":o.b,"events":out.total_events,"segments":out.segments,"edges_run":steps,
           "distinct_state_ops":tested.len(),"fast_disagreements":fast_bad,"lts_states":lts.states.len(),"lts_edges":lts.nedges})
}


// ------------------------------------------------------------------------------------------------
// C15 with OVERLAPPING write handles: the same script of two write handles (A, B) on one path is run on a sync
// configuration and on its async twin; after every step both worlds must answer alike and publish the same
// bytes.  No cursor model is involved: the sync world is the reference ("behaviourally identical").
pub fn run_two_writers(cfgs: &[String], scripts: usize, seed: u64, b: usize, out_dir: &Path) -> Value {
    let mut rng = StdRng::seed_from_u64(seed);
    let mut out = crate::lts::TraceOut::new(out_dir, "twowriters");
    let mut steps_total = 0u64;
    for cfg in cfgs {
        for _ in 0..scripts {
            let cx = Conc::new("ascii", b);
            let path: Vec<String> = vec!["a".into()];
            let mk = |is_async: bool| -> (Ctx, Ctx) {
                // two contexts share one world: the second one only borrows the path (handles A and B)
                let w = if is_async { Target::Async(crate::aworld::abuild(cfg, false)) } else { Target::Sync(build(cfg)) };
                let a = Ctx { w, cx: cx.clone(), path: path.clone(), wh: None, rh: None };
                let w2 = if is_async { Target::Async(crate::aworld::abuild("mem", false)) } else { Target::Sync(build("mem")) };
                let bctx = Ctx { w: w2, cx: cx.clone(), path: path.clone(), wh: None, rh: None };
                (a, bctx)
            };
            let (mut sa, mut sb) = mk(false);
            let (mut aa, mut ab) = mk(true);
            // initial content (half of the scripts)
            let init: Vec<i64> = if rng.gen_bool(0.5) { vec![1, 2] } else { vec![] };
            let has_init = rng.gen_bool(0.5);
            if has_init {
                for c in [&mut sa, &mut aa] {
                    if let Ok(Ok(mut h)) = c.open_w(false) {
                        let _ = h.write_all(&conc_bytes(&init, b));
                        let _ = h.flush();
                    }
                }
            }
            let mut steps = vec![];
            let n = rng.gen_range(3..10);
            for _ in 0..n {
                let who = if rng.gen_bool(0.5) { "A" } else { "B" };
                let op = *["open_create", "open_append", "write", "write", "flush", "drop", "remove"].choose(&mut rng).unwrap();
                let data: Vec<i64> = (0..rng.gen_range(1..3)).map(|_| rng.gen_range(0..4)).collect();
                let mut res = vec![];
                for (main, second) in [(&mut sa, &mut sb), (&mut aa, &mut ab)] {
                    // handle B lives in `second.wh` but is opened on the MAIN world's path
                    let slot_is_b = who == "B";
                    let r: String = match op {
                        "open_create" | "open_append" => match main.open_w(op == "open_append") {
                            Err(()) => "panic".into(),
                            Ok(Err(_)) => "err".into(),
                            Ok(Ok(h)) => {
                                let old = if slot_is_b { second.wh.replace(h) } else { main.wh.replace(h) };
                                if let Some(o) = old {
                                    if guard(move || drop(o)).is_err() {
                                        "panic".into()
                                    } else {
                                        "ok".into()
                                    }
                                } else {
                                    "ok".into()
                                }
                            }
                        },
                        "write" | "flush" => {
                            let h = if slot_is_b { second.wh.as_mut() } else { main.wh.as_mut() };
                            match h {
                                None => "nohandle".into(),
                                Some(h) => {
                                    let bytes = conc_bytes(&data, b);
                                    let r = if op == "write" { io_cls(guard(|| h.write_all(&bytes))).0 } else { io_cls(guard(|| h.flush())).0 };
                                    r.into()
                                }
                            }
                        }
                        "drop" => {
                            let h = if slot_is_b { second.wh.take() } else { main.wh.take() };
                            match h {
                                None => "nohandle".into(),
                                Some(h) => if guard(move || drop(h)).is_err() { "panic".into() } else { "ok".into() },
                            }
                        }
                        _ => match main.remove() {
                            Err(()) => "panic".into(),
                            Ok(Err(_)) => "err".into(),
                            Ok(Ok(())) => "ok".into(),
                        },
                    };
                    let fresh = main.fresh();
                    res.push(json!({"c": r, "pub": {"c": fresh["c"], "v": fresh["v"], "len": fresh["len"]}}));
                }
                steps.push(json!({"who": who, "op": op, "data": data, "sync": res[0], "async": res[1]}));
                steps_total += 1;
            }
            // drop what is left, B first, and compare once more
            let mut fin = vec![];
            for (main, second) in [(&mut sa, &mut sb), (&mut aa, &mut ab)] {
                let mut c = "ok";
                if let Some(h) = second.wh.take() {
                    if guard(move || drop(h)).is_err() {
                        c = "panic";
                    }
                }
                if let Some(h) = main.wh.take() {
                    if guard(move || drop(h)).is_err() {
                        c = "panic";
                    }
                }
                let fresh = main.fresh();
                fin.push(json!({"c": c, "pub": {"c": fresh["c"], "v": fresh["v"], "len": fresh["len"]}}));
            }
            steps.push(json!({"who": "-", "op": "drop_all", "data": [], "sync": fin[0], "async": fin[1]}));
            out.begin(&json!({"ev":"tw","cfg":cfg,"b":b,"init": if has_init { json!(init) } else { json!([-1]) },"steps":steps}));
        }
    }
    out.finish();
    json!({"cfg":"twowriters","mode":"two overlapping write handles, sync vs async","names":"ascii","b":b,"events":out.total_events,"segments":out.segments,"edges_run":steps_total,"distinct_state_ops":steps_total})
}
