//! The async twins (C15): configurations built from the same term language over the async port
//! (AsyncMemoryFS, AsyncPhysicalFS, AsyncAltrootFS, AsyncOverlayFS), the same observer and the same
//! operation executor, producing the same records as the sync side so that the same Level A judges
//! them.  Everything runs on a tokio current-thread runtime, like the repository's own async tests.
use crate::cfg::{fresh_tmp, parse, FaultCtl, Term};
use crate::exec::{Op, Res};
use crate::names::*;
use crate::obs::{class_of, Conc};
use crate::session::Snap;
use async_std::io::{ReadExt, WriteExt};
use async_trait::async_trait;
use futures::{FutureExt, Stream, StreamExt};
use serde_json::{json, Value};
use std::panic::AssertUnwindSafe;
use std::path::PathBuf;
use std::sync::atomic::{AtomicBool, AtomicUsize, Ordering};
use std::sync::Arc;
use std::task::{Context, Poll};
use std::time::SystemTime;
use vfs::async_vfs::*;
use vfs::error::VfsErrorKind;
use vfs::{VfsError, VfsFileType, VfsMetadata, VfsResult};

// ------------------------------------------------------------------ boxed async filesystem
pub struct BoxAFS(pub Box<dyn AsyncFileSystem>);
impl std::fmt::Debug for BoxAFS {
    fn fmt(&self, f: &mut std::fmt::Formatter<'_>) -> std::fmt::Result {
        self.0.fmt(f)
    }
}
#[async_trait]
impl AsyncFileSystem for BoxAFS {
    async fn read_dir(&self, path: &str) -> VfsResult<Box<dyn Unpin + Stream<Item = String> + Send>> {
        self.0.read_dir(path).await
    }
    async fn create_dir(&self, path: &str) -> VfsResult<()> {
        self.0.create_dir(path).await
    }
    async fn open_file(&self, path: &str) -> VfsResult<Box<dyn SeekAndRead + Send + Unpin>> {
        self.0.open_file(path).await
    }
    async fn create_file(&self, path: &str) -> VfsResult<Box<dyn async_std::io::Write + Send + Unpin>> {
        self.0.create_file(path).await
    }
    async fn append_file(&self, path: &str) -> VfsResult<Box<dyn async_std::io::Write + Send + Unpin>> {
        self.0.append_file(path).await
    }
    async fn metadata(&self, path: &str) -> VfsResult<VfsMetadata> {
        self.0.metadata(path).await
    }
    async fn set_creation_time(&self, path: &str, time: SystemTime) -> VfsResult<()> {
        self.0.set_creation_time(path, time).await
    }
    async fn set_modification_time(&self, path: &str, time: SystemTime) -> VfsResult<()> {
        self.0.set_modification_time(path, time).await
    }
    async fn set_access_time(&self, path: &str, time: SystemTime) -> VfsResult<()> {
        self.0.set_access_time(path, time).await
    }
    async fn exists(&self, path: &str) -> VfsResult<bool> {
        self.0.exists(path).await
    }
    async fn remove_file(&self, path: &str) -> VfsResult<()> {
        self.0.remove_file(path).await
    }
    async fn remove_dir(&self, path: &str) -> VfsResult<()> {
        self.0.remove_dir(path).await
    }
    async fn copy_file(&self, src: &str, dest: &str) -> VfsResult<()> {
        self.0.copy_file(src, dest).await
    }
    async fn move_file(&self, src: &str, dest: &str) -> VfsResult<()> {
        self.0.move_file(src, dest).await
    }
    async fn move_dir(&self, src: &str, dest: &str) -> VfsResult<()> {
        self.0.move_dir(src, dest).await
    }
}

// ------------------------------------------------------------------ PendingFS
/// makes read_dir, metadata and the directory stream return Pending a scheduled number of times
/// before forwarding (C15: the walk stream must not depend on the poll schedule).  The schedule is a
/// vector indexed by await point (in the order the points are first reached).
pub struct PendCtl {
    pub on: AtomicBool,
    pub plan: std::sync::Mutex<Vec<usize>>, // pendings to inject at the i-th await point
    pub next: AtomicUsize,
    /// fault injection for the walk stream: the k-th metadata call (1-based, while `on`) fails
    pub fail_metadata_at: AtomicUsize,
    pub metadata_calls: AtomicUsize,
}
impl PendCtl {
    pub fn new() -> Arc<PendCtl> {
        Arc::new(PendCtl { on: AtomicBool::new(false), plan: std::sync::Mutex::new(vec![]), next: AtomicUsize::new(0),
                           fail_metadata_at: AtomicUsize::new(0), metadata_calls: AtomicUsize::new(0) })
    }
    fn take(&self) -> usize {
        if !self.on.load(Ordering::SeqCst) {
            return 0;
        }
        let i = self.next.fetch_add(1, Ordering::SeqCst);
        self.plan.lock().unwrap().get(i).copied().unwrap_or(0)
    }
}
/// a future that is Pending n times (waking itself) and then Ready
struct PendN(usize);
impl std::future::Future for PendN {
    type Output = ();
    fn poll(mut self: std::pin::Pin<&mut Self>, cx: &mut Context<'_>) -> Poll<()> {
        if self.0 == 0 {
            Poll::Ready(())
        } else {
            self.0 -= 1;
            cx.waker().wake_by_ref();
            Poll::Pending
        }
    }
}
struct PendStream {
    inner: Box<dyn Unpin + Stream<Item = String> + Send>,
    ctl: Arc<PendCtl>,
    left: Option<usize>,
    done: bool,
}
impl Stream for PendStream {
    type Item = String;
    fn poll_next(mut self: std::pin::Pin<&mut Self>, cx: &mut Context<'_>) -> Poll<Option<String>> {
        if self.done {
            return Poll::Ready(None); // (the walker polls an exhausted listing again while it waits for the next one)
        }
        if self.left.is_none() {
            let n = self.ctl.take();
            self.left = Some(n);
        }
        if self.left.unwrap() > 0 {
            self.left = Some(self.left.unwrap() - 1);
            cx.waker().wake_by_ref();
            return Poll::Pending;
        }
        let r = self.inner.poll_next_unpin(cx);
        if r.is_ready() {
            self.left = None; // the next item is a new await point
        }
        if let Poll::Ready(None) = r {
            self.done = true;
        }
        r
    }
}
pub struct PendingFS {
    pub inner: Box<dyn AsyncFileSystem>,
    pub ctl: Arc<PendCtl>,
}
impl std::fmt::Debug for PendingFS {
    fn fmt(&self, f: &mut std::fmt::Formatter<'_>) -> std::fmt::Result {
        write!(f, "PendingFS({:?})", self.inner)
    }
}
#[async_trait]
impl AsyncFileSystem for PendingFS {
    async fn read_dir(&self, path: &str) -> VfsResult<Box<dyn Unpin + Stream<Item = String> + Send>> {
        PendN(self.ctl.take()).await;
        let s = self.inner.read_dir(path).await?;
        Ok(Box::new(PendStream { inner: s, ctl: self.ctl.clone(), left: None, done: false }))
    }
    async fn create_dir(&self, path: &str) -> VfsResult<()> {
        self.inner.create_dir(path).await
    }
    async fn open_file(&self, path: &str) -> VfsResult<Box<dyn SeekAndRead + Send + Unpin>> {
        self.inner.open_file(path).await
    }
    async fn create_file(&self, path: &str) -> VfsResult<Box<dyn async_std::io::Write + Send + Unpin>> {
        self.inner.create_file(path).await
    }
    async fn append_file(&self, path: &str) -> VfsResult<Box<dyn async_std::io::Write + Send + Unpin>> {
        self.inner.append_file(path).await
    }
    async fn metadata(&self, path: &str) -> VfsResult<VfsMetadata> {
        PendN(self.ctl.take()).await;
        if self.ctl.on.load(Ordering::SeqCst) {
            let n = self.ctl.metadata_calls.fetch_add(1, Ordering::SeqCst) + 1;
            if n == self.ctl.fail_metadata_at.load(Ordering::SeqCst) {
                return Err(VfsErrorKind::IoError(std::io::Error::new(std::io::ErrorKind::Other, "injected fault")).into());
            }
        }
        self.inner.metadata(path).await
    }
    async fn set_creation_time(&self, path: &str, time: SystemTime) -> VfsResult<()> {
        self.inner.set_creation_time(path, time).await
    }
    async fn set_modification_time(&self, path: &str, time: SystemTime) -> VfsResult<()> {
        self.inner.set_modification_time(path, time).await
    }
    async fn set_access_time(&self, path: &str, time: SystemTime) -> VfsResult<()> {
        self.inner.set_access_time(path, time).await
    }
    async fn exists(&self, path: &str) -> VfsResult<bool> {
        self.inner.exists(path).await
    }
    async fn remove_file(&self, path: &str) -> VfsResult<()> {
        self.inner.remove_file(path).await
    }
    async fn remove_dir(&self, path: &str) -> VfsResult<()> {
        self.inner.remove_dir(path).await
    }
    async fn copy_file(&self, src: &str, dest: &str) -> VfsResult<()> {
        self.inner.copy_file(src, dest).await
    }
    async fn move_file(&self, src: &str, dest: &str) -> VfsResult<()> {
        self.inner.move_file(src, dest).await
    }
    async fn move_dir(&self, src: &str, dest: &str) -> VfsResult<()> {
        self.inner.move_dir(src, dest).await
    }
}

// ------------------------------------------------------------------ world
pub struct AWorld {
    pub root: AsyncVfsPath,
    pub term: Term,
    pub cfg: String,
    pub tmp: Vec<PathBuf>,
    pub pend: Option<Arc<PendCtl>>,
    pub rt: tokio::runtime::Runtime,
    /// roots of the layers of a TOP-LEVEL overlay (index 0 = write layer), for pre-population
    pub layers: Vec<AsyncVfsPath>,
    /// controls of the fault(..) wrappers in the term
    pub faults: Vec<Arc<FaultCtl>>,
}
impl Drop for AWorld {
    fn drop(&mut self) {
        for d in &self.tmp {
            let _ = std::fs::remove_dir_all(d);
        }
    }
}
thread_local! {
    static AFAULTS: std::cell::RefCell<Vec<Arc<FaultCtl>>> = std::cell::RefCell::new(vec![]);
}
fn build_afs(t: &Term, tmp: &mut Vec<PathBuf>, rt: &tokio::runtime::Runtime) -> Box<dyn AsyncFileSystem> {
    build_afs_top(t, tmp, rt, &mut vec![], false)
}

// ------------------------------------------------------------------ AsyncFaultFS (C20 on the async port)
/// fails the k-th call into the wrapped async filesystem with an I/O error (same control as the sync FaultFS)
pub struct AsyncFaultFS {
    pub inner: Box<dyn AsyncFileSystem>,
    pub ctl: Arc<FaultCtl>,
}
impl std::fmt::Debug for AsyncFaultFS {
    fn fmt(&self, f: &mut std::fmt::Formatter<'_>) -> std::fmt::Result {
        write!(f, "AsyncFaultFS({:?})", self.inner)
    }
}
fn ainjected<T>() -> VfsResult<T> {
    Err(VfsErrorKind::IoError(std::io::Error::new(std::io::ErrorKind::Other, "injected fault")).into())
}
macro_rules! afault {
    ($self:ident, $name:expr) => {
        if $self.ctl.hit($name) {
            return ainjected();
        }
    };
}
#[async_trait]
impl AsyncFileSystem for AsyncFaultFS {
    async fn read_dir(&self, path: &str) -> VfsResult<Box<dyn Unpin + Stream<Item = String> + Send>> {
        afault!(self, "read_dir");
        self.inner.read_dir(path).await
    }
    async fn create_dir(&self, path: &str) -> VfsResult<()> {
        afault!(self, "create_dir");
        self.inner.create_dir(path).await
    }
    async fn open_file(&self, path: &str) -> VfsResult<Box<dyn SeekAndRead + Send + Unpin>> {
        afault!(self, "open_file");
        self.inner.open_file(path).await
    }
    async fn create_file(&self, path: &str) -> VfsResult<Box<dyn async_std::io::Write + Send + Unpin>> {
        afault!(self, "create_file");
        self.inner.create_file(path).await
    }
    async fn append_file(&self, path: &str) -> VfsResult<Box<dyn async_std::io::Write + Send + Unpin>> {
        afault!(self, "append_file");
        self.inner.append_file(path).await
    }
    async fn metadata(&self, path: &str) -> VfsResult<VfsMetadata> {
        afault!(self, "metadata");
        self.inner.metadata(path).await
    }
    async fn set_creation_time(&self, path: &str, time: SystemTime) -> VfsResult<()> {
        afault!(self, "set_creation_time");
        self.inner.set_creation_time(path, time).await
    }
    async fn set_modification_time(&self, path: &str, time: SystemTime) -> VfsResult<()> {
        afault!(self, "set_modification_time");
        self.inner.set_modification_time(path, time).await
    }
    async fn set_access_time(&self, path: &str, time: SystemTime) -> VfsResult<()> {
        afault!(self, "set_access_time");
        self.inner.set_access_time(path, time).await
    }
    async fn exists(&self, path: &str) -> VfsResult<bool> {
        afault!(self, "exists");
        self.inner.exists(path).await
    }
    async fn remove_file(&self, path: &str) -> VfsResult<()> {
        afault!(self, "remove_file");
        self.inner.remove_file(path).await
    }
    async fn remove_dir(&self, path: &str) -> VfsResult<()> {
        afault!(self, "remove_dir");
        self.inner.remove_dir(path).await
    }
    async fn copy_file(&self, src: &str, dest: &str) -> VfsResult<()> {
        afault!(self, "copy_file");
        self.inner.copy_file(src, dest).await
    }
    async fn move_file(&self, src: &str, dest: &str) -> VfsResult<()> {
        afault!(self, "move_file");
        self.inner.move_file(src, dest).await
    }
    async fn move_dir(&self, src: &str, dest: &str) -> VfsResult<()> {
        afault!(self, "move_dir");
        self.inner.move_dir(src, dest).await
    }
}
fn build_afs_top(t: &Term, tmp: &mut Vec<PathBuf>, rt: &tokio::runtime::Runtime, keep: &mut Vec<AsyncVfsPath>, top: bool) -> Box<dyn AsyncFileSystem> {
    match t {
        Term::Mem => Box::new(AsyncMemoryFS::new()),
        Term::Phys => {
            let sandbox = fresh_tmp();
            let root = sandbox.join("root");
            std::fs::create_dir_all(&root).unwrap();
            tmp.push(sandbox);
            Box::new(AsyncPhysicalFS::new(root))
        }
        Term::Alt(dir, inner) => {
            let under = AsyncVfsPath::new(BoxAFS(build_afs(inner, tmp, rt)));
            let p = under.join(dir.join("/")).unwrap();
            rt.block_on(p.create_dir_all()).unwrap();
            Box::new(AsyncAltrootFS::new(p))
        }
        Term::Ovl(layers) => {
            let roots: Vec<AsyncVfsPath> = layers.iter().map(|l| AsyncVfsPath::new(BoxAFS(build_afs(l, tmp, rt)))).collect();
            if top {
                *keep = roots.clone();
            }
            Box::new(AsyncOverlayFS::new(&roots))
        }
        Term::Fault(inner) => {
            let ctl = FaultCtl::new();
            AFAULTS.with(|f| f.borrow_mut().push(ctl.clone()));
            Box::new(AsyncFaultFS { inner: build_afs(inner, tmp, rt), ctl })
        }
        Term::OvlSub(n) => {
            let shared = AsyncVfsPath::new(AsyncMemoryFS::new());
            let roots: Vec<AsyncVfsPath> = (1..=*n)
                .map(|i| {
                    let d = shared.join(format!("zl{i}")).unwrap();
                    rt.block_on(d.create_dir()).unwrap();
                    d
                })
                .collect();
            Box::new(AsyncOverlayFS::new(&roots))
        }
        Term::OvlShared(n) => {
            let shared = AsyncVfsPath::new(AsyncMemoryFS::new());
            let roots: Vec<AsyncVfsPath> = (1..=*n)
                .map(|i| {
                    let d = shared.join(format!("zl{i}")).unwrap();
                    rt.block_on(d.create_dir()).unwrap();
                    AsyncVfsPath::new(AsyncAltrootFS::new(d))
                })
                .collect();
            Box::new(AsyncOverlayFS::new(&roots))
        }
    }
}
pub fn abuild(cfg: &str, pending: bool) -> AWorld {
    let term = parse(cfg);
    let rt = tokio::runtime::Builder::new_current_thread().enable_all().build().unwrap();
    let mut tmp = vec![];
    let mut layers = vec![];
    AFAULTS.with(|f| f.borrow_mut().clear());
    let fs = build_afs_top(&term, &mut tmp, &rt, &mut layers, true);
    let faults = AFAULTS.with(|f| std::mem::take(&mut *f.borrow_mut()));
    let (root, pend) = if pending {
        let ctl = PendCtl::new();
        (AsyncVfsPath::new(PendingFS { inner: fs, ctl: ctl.clone() }), Some(ctl))
    } else {
        (AsyncVfsPath::new(BoxAFS(fs)), None)
    };
    AWorld { root, term, cfg: cfg.to_string(), tmp, pend, rt, layers, faults }
}

pub fn apath(cx: &Conc, root: &AsyncVfsPath, p: &[String]) -> AsyncVfsPath {
    if p.is_empty() {
        root.clone()
    } else {
        root.join(cx.names.conc_path(p)).expect("join of a generated path")
    }
}
async fn aguard<T>(f: impl std::future::Future<Output = T>) -> Result<T, ()> {
    AssertUnwindSafe(f).catch_unwind().await.map_err(|_| ())
}
pub async fn aguard_pub<T>(f: impl std::future::Future<Output = T>) -> Result<T, ()> {
    aguard(f).await
}
fn abs_of(cx: &Conc, s: &str) -> Vec<String> {
    cx.names.abs_path(s).unwrap_or_else(|| vec![format!("!raw:{s}")])
}
fn amd_json(cx: &Conc, r: Result<VfsResult<VfsMetadata>, ()>) -> Value {
    crate::obs::md_json(cx, r)
}

pub async fn aobserve(root: &AsyncVfsPath, universe: &[Vec<String>], cx: &Conc, rot: usize) -> Value {
    const CHUNKS: [usize; 7] = [0, 1, 2, 7, 8191, 8192, 8193];
    let mut all: Vec<Vec<String>> = vec![vec![]];
    all.extend(universe.iter().cloned());
    let mut mds = vec![];
    for p in &all {
        let q = apath(cx, root, p);
        mds.push(amd_json(cx, aguard(q.metadata()).await));
    }
    let mut ents = vec![];
    for (i, p) in all.iter().enumerate() {
        let q = apath(cx, root, p);
        let bj = |r: Result<VfsResult<bool>, ()>| match r {
            Err(()) => json!({"c":"panic","v":false}),
            Ok(Err(e)) => json!({"c":class_of(&e),"v":false}),
            Ok(Ok(b)) => json!({"c":"ok","v":b}),
        };
        let ex = bj(aguard(q.exists()).await);
        let isf = bj(aguard(q.is_file()).await);
        let isd = bj(aguard(q.is_dir()).await);
        let ls = match aguard(async {
            match q.read_dir().await {
                Err(e) => Err(e),
                Ok(s) => Ok(s.collect::<Vec<_>>().await),
            }
        })
        .await
        {
            Err(()) => json!({"c":"panic","v":[],"ep":["-"]}),
            Ok(Err(e)) => json!({"c":class_of(&e),"v":[],"ep":cx.ep(e.path())}),
            Ok(Ok(items)) => {
                let mut names: Vec<String> = items
                    .iter()
                    .map(|it| {
                        let f = it.filename();
                        if it.as_str() != format!("{}/{}", q.as_str(), f) || f.is_empty() {
                            format!("!notbare:{}", it.as_str())
                        } else {
                            cx.names.abs_name(&f)
                        }
                    })
                    .collect();
                names.sort();
                json!({"c":"ok","v":names,"ep":["-"]})
            }
        };
        let chunk = CHUNKS[(rot + i) % CHUNKS.len()];
        let mut bytes: Option<Vec<u8>> = None;
        let (op, rd) = match aguard(q.open_file()).await {
            Err(()) => (json!({"c":"panic","ep":["-"]}), json!({"c":"skip","v":[]})),
            Ok(Err(e)) => (json!({"c":class_of(&e),"ep":cx.ep(e.path())}), json!({"c":"skip","v":[]})),
            Ok(Ok(mut h)) => {
                let r = aguard(async {
                    let mut out = vec![];
                    if chunk == 0 {
                        h.read_to_end(&mut out).await?;
                    } else {
                        let mut buf = vec![0u8; chunk];
                        loop {
                            let n = h.read(&mut buf).await?;
                            if n == 0 {
                                break;
                            }
                            out.extend_from_slice(&buf[..n]);
                        }
                    }
                    Ok::<Vec<u8>, std::io::Error>(out)
                })
                .await;
                let rd = match r {
                    Err(()) => json!({"c":"panic","v":[]}),
                    Ok(Err(_)) => json!({"c":"err","v":[]}),
                    Ok(Ok(b)) => {
                        let v = abs_bytes(&b, cx.b);
                        bytes = Some(b);
                        json!({"c":"ok","v":v})
                    }
                };
                (json!({"c":"ok","ep":["-"]}), rd)
            }
        };
        let rts = match aguard(q.read_to_string()).await {
            Err(()) => json!({"c":"panic","same":false,"ep":["-"]}),
            Ok(Err(e)) => json!({"c":class_of(&e),"same":false,"ep":cx.ep(e.path())}),
            Ok(Ok(s)) => json!({"c":"ok","same": bytes.as_deref() == Some(s.as_bytes()),"ep":["-"]}),
        };
        ents.push(json!({"p":p,"ex":ex,"md":mds[i],"isf":isf,"isd":isd,"ls":ls,"op":op,"rd":rd,"rts":rts}));
    }
    let walk = match aguard(async {
        match root.walk_dir().await {
            Err(e) => Err(e),
            Ok(mut it) => {
                let mut v = vec![];
                let mut nerr = 0;
                let mut ep = json!(["-"]);
                let mut n = 0;
                while let Some(item) = it.next().await {
                    n += 1;
                    if n > 10_000 {
                        nerr += 1_000_000;
                        break;
                    }
                    match item {
                        Ok(p) => v.push(abs_of(cx, p.as_str())),
                        Err(e) => {
                            nerr += 1;
                            ep = cx.ep(e.path());
                        }
                    }
                }
                Ok((v, nerr, ep))
            }
        }
    })
    .await
    {
        Err(()) => json!({"c":"panic","v":[],"nerr":0,"ep":["-"]}),
        Ok(Err(e)) => json!({"c":class_of(&e),"v":[],"nerr":0,"ep":cx.ep(e.path())}),
        Ok(Ok((v, nerr, ep))) => json!({"c":"ok","v":v,"nerr":nerr,"ep":ep}),
    };
    json!({"ents":ents,"walk":walk})
}

fn fin<T>(cx: &Conc, r: Result<VfsResult<T>, ()>, val: impl FnOnce(&T) -> i64) -> Res {
    match r {
        Err(()) => Res { cls: "panic".into(), ep: json!(["-"]), val: 0 },
        Ok(Err(e)) => Res { cls: class_of(&e).into(), ep: cx.ep(e.path()), val: 0 },
        Ok(Ok(v)) => Res { cls: "ok".into(), ep: json!(["-"]), val: val(&v) },
    }
}
async fn awrite_session(cx: &Conc, pabs: &[String], p: &AsyncVfsPath, append: bool, bytes: &[u8]) -> Res {
    let r = aguard(async {
        let mut h = if append { p.append_file().await } else { p.create_file().await }.map_err(Ok)?;
        h.write_all(bytes).await.map_err(Err)?;
        h.flush().await.map_err(Err)?;
        drop(h);
        Ok::<(), Result<VfsError, std::io::Error>>(())
    })
    .await;
    match r {
        Err(()) => Res { cls: "panic".into(), ep: json!(["-"]), val: 0 },
        Ok(Ok(())) => Res { cls: "ok".into(), ep: json!(["-"]), val: 0 },
        Ok(Err(Ok(e))) => Res { cls: class_of(&e).into(), ep: cx.ep(e.path()), val: 0 },
        Ok(Err(Err(_io))) => Res { cls: "err".into(), ep: json!(pabs), val: 0 },
    }
}
pub async fn aexec(root: &AsyncVfsPath, root2: &AsyncVfsPath, op: &Op, cx: &Conc) -> Res {
    let p = apath(cx, root, &op.p);
    let q = apath(cx, root2, &op.q);
    let bytes = conc_bytes(&op.c, cx.b);
    let t = tick(op.tick);
    match op.op.as_str() {
        "create_dir" => fin(cx, aguard(p.create_dir()).await, |_| 0),
        "create_file" => awrite_session(cx, &op.p, &p, false, &bytes).await,
        "append_file" => awrite_session(cx, &op.p, &p, true, &bytes).await,
        "remove_file" => fin(cx, aguard(p.remove_file()).await, |_| 0),
        "remove_dir" => fin(cx, aguard(p.remove_dir()).await, |_| 0),
        "create_dir_all" => fin(cx, aguard(p.create_dir_all()).await, |_| 0),
        "remove_dir_all" => fin(cx, aguard(p.remove_dir_all()).await, |_| 0),
        "copy_file" => fin(cx, aguard(p.copy_file(&q)).await, |_| 0),
        "move_file" => fin(cx, aguard(p.move_file(&q)).await, |_| 0),
        "copy_dir" => fin(cx, aguard(p.copy_dir(&q)).await, |n| *n as i64),
        "move_dir" => fin(cx, aguard(p.move_dir(&q)).await, |_| 0),
        "set_time" => match op.f.as_str() {
            "cr" => fin(cx, aguard(p.set_creation_time(t)).await, |_| 0),
            "mo" => fin(cx, aguard(p.set_modification_time(t)).await, |_| 0),
            _ => fin(cx, aguard(p.set_access_time(t)).await, |_| 0),
        },
        other => panic!("unknown op {other}"),
    }
}

/// which setters the async configurations support (AsyncMemoryFS has no timestamps at all)
pub fn asup(t: &Term) -> Vec<&'static str> {
    match t {
        Term::Mem => vec![],
        Term::Phys => vec!["mo", "ac"],
        Term::Alt(_, t) | Term::Fault(t) => asup(t),
        Term::Ovl(v) => asup(&v[0]),
        Term::OvlShared(_) | Term::OvlSub(_) => vec![],
    }
}

pub struct ASession {
    pub w: AWorld,
    pub cx: Conc,
    pub universe: Vec<Vec<String>>,
    pub rot: usize,
    /// what the layers of a top-level overlay were pre-populated with (layer contents, marker paths)
    pub init_layers: Option<(Vec<Option<Snap>>, Vec<Vec<String>>)>,
}
impl ASession {
    pub fn new(cfg: &str, names: &str, b: usize, universe: &[Vec<String>]) -> ASession {
        ASession { w: abuild(cfg, false), cx: Conc::new(names, b), universe: universe.to_vec(), rot: 0, init_layers: None }
    }
    /// pre-populate the layers of a top-level overlay through their own handles, and the whiteout markers of
    /// a write layer that was used before
    pub fn populate_layers(&mut self, snaps: &[Option<Snap>], markers: &[Vec<String>]) {
        let cx = &self.cx;
        self.w.rt.block_on(async {
            for (root, snap) in self.w.layers.iter().zip(snaps.iter()) {
                if let Some(snap) = snap {
                    for (p, n) in self.universe.iter().zip(snap.iter()) {
                        match n[0] {
                            0 => {}
                            1 => crate::session::pop_check("create_dir", p, aguard(apath(cx, root, p).create_dir()).await),
                            _ => crate::session::pop_check("create_file+write", p, aguard(async {
                                let mut h = apath(cx, root, p).create_file().await?;
                                h.write_all(&conc_bytes(&n[1..], cx.b)).await.map_err(|e| vfs::VfsError::from(vfs::error::VfsErrorKind::IoError(e)))?;
                                h.flush().await.map_err(|e| vfs::VfsError::from(vfs::error::VfsErrorKind::IoError(e)))
                            }).await),
                        }
                    }
                }
            }
            for m in markers {
                let p = self.w.layers[0].join(format!(".whiteout/{}_wo", cx.names.conc_path(m))).expect("marker path");
                crate::session::pop_check("marker create_dir_all", m, aguard(p.parent().create_dir_all()).await);
                crate::session::pop_check("marker create_file", m, aguard(async {
                    let mut h = p.create_file().await?;
                    h.flush().await.map_err(|e| vfs::VfsError::from(vfs::error::VfsErrorKind::IoError(e)))
                }).await);

            }
        });
        self.init_layers = Some((snaps.to_vec(), markers.to_vec()));
    }
    pub fn populate_state(&self, snap: &Snap) {
        let cx = &self.cx;
        self.w.rt.block_on(async {
            for (p, n) in self.universe.iter().zip(snap.iter()) {
                match n[0] {
                    0 => {}
                    1 => crate::session::pop_check("create_dir", p, aguard(apath(cx, &self.w.root, p).create_dir()).await),
                    _ => crate::session::pop_check("create_file+write", p, aguard(async {
                        let mut h = apath(cx, &self.w.root, p).create_file().await?;
                        h.write_all(&conc_bytes(&n[1..], cx.b)).await.map_err(|e| vfs::VfsError::from(vfs::error::VfsErrorKind::IoError(e)))?;
                        h.flush().await.map_err(|e| vfs::VfsError::from(vfs::error::VfsErrorKind::IoError(e)))
                    }).await),
                }
            }
        });
    }
    pub fn init_event(&mut self) -> Value {
        self.rot += 1;
        let obs = self.w.rt.block_on(aobserve(&self.w.root, &self.universe, &self.cx, self.rot));
        let mut e = json!({"ev":"init","cfg":format!("async:{}", self.w.cfg),"kind":format!("a{}", self.w.term.kind()),"sup":asup(&self.w.term),"ro":false,
               "names":self.cx.names.id,"b":self.cx.b,"universe":self.universe,"obs":obs});
        if let Some((snaps, markers)) = &self.init_layers {
            // the layer contents as they were written (same record shape as a raw snapshot of a sync layer)
            let layers: Vec<Value> = snaps
                .iter()
                .map(|s| {
                    let mut ents = vec![];
                    if let Some(s) = s {
                        for (p, n) in self.universe.iter().zip(s.iter()) {
                            if n[0] != 0 {
                                ents.push(json!({"p":p,"k": if n[0] == 1 {"dir"} else {"file"},"len": n.len() - 1,"cr":"none","mo":"none","ac":"none","d": n[1..].to_vec()}));
                            }
                        }
                    }
                    Value::Array(ents)
                })
                .collect();
            e["layers"] = Value::Array(layers);
            e["wo"] = json!(markers);
        }
        let pf = crate::session::take_popfail();
        if !pf.is_empty() {
            e["popfail"] = json!(pf);
        }
        e
    }
    pub fn step(&mut self, op: &Op) -> Value {
        self.rot += 1;
        let mut op_t = op.clone();
        if op.op == "set_time" {
            op_t.tick = self.rot % 8;
        }
        let op = &op_t;
        let cx = &self.cx;
        let root = &self.w.root;
        let rot = self.rot;
        let universe = &self.universe;
        self.w.rt.block_on(async {
            let pre_p = amd_json(cx, aguard(apath(cx, root, &op.p).metadata()).await);
            let res = aexec(root, root, op, cx).await;
            let post = amd_json(cx, aguard(apath(cx, root, &op.p).metadata()).await);
            let obs = aobserve(root, universe, cx, rot).await;
            let mut e = op.to_json();
            e["ev"] = json!("call");
            e["res"] = res.to_json();
            e["pre"] = json!({"p":pre_p,"q":{"c":"skip"}});
            e["post"] = post;
            e["obs"] = obs;
            e
        })
    }
}
