//! C20 driver: fault sweep.  For sampled (state, operation) pairs of the LTS and for observer
//! operations: run the operation fault-free to count the calls n it makes into the wrapped base
//! filesystem (FaultFS), then for every k = 1..n rebuild the same world, make the k-th call fail with
//! an I/O error, run the operation, and record result + observation (taken with faults disarmed).
use crate::exec::*;
use crate::lts::*;
use crate::obs::*;
use crate::session::*;
use rand::rngs::StdRng;
use rand::seq::SliceRandom;
use rand::{Rng, SeedableRng};
use serde_json::{json, Value};
use std::sync::Arc;

fn obs_op(sess: &Session, op: &str, p: &[String]) -> Value {
    let cx = &sess.cx;
    let q = cx.path(&sess.w.root, p);
    let b = |r: Result<vfs::VfsResult<bool>, ()>| match r {
        Err(()) => json!({"c":"panic","v":[],"ep":["-"],"val":0}),
        Ok(Err(e)) => json!({"c":class_of(&e),"v":[],"ep":cx.ep(e.path()),"val":0}),
        Ok(Ok(x)) => json!({"c":"ok","v":[x],"ep":["-"],"val":0}),
    };
    match op {
        "exists" => b(guard(|| q.exists())),
        "is_dir" => b(guard(|| q.is_dir())),
        "is_file" => b(guard(|| q.is_file())),
        "metadata" => match guard(|| q.metadata()) {
            Err(()) => json!({"c":"panic","v":[],"ep":["-"],"val":0}),
            Ok(Err(e)) => json!({"c":class_of(&e),"v":[],"ep":cx.ep(e.path()),"val":0}),
            Ok(Ok(m)) => json!({"c":"ok","v":[if m.file_type == vfs::VfsFileType::Directory {json!("dir")} else {json!("file")}, json!(crate::names::abs_len(m.len, cx.b))],"ep":["-"],"val":0}),
        },
        "read_dir" => match guard(|| q.read_dir().map(|it| it.map(|x| cx.names.abs_name(&x.filename())).collect::<Vec<_>>())) {
            Err(()) => json!({"c":"panic","v":[],"ep":["-"],"val":0}),
            Ok(Err(e)) => json!({"c":class_of(&e),"v":[],"ep":cx.ep(e.path()),"val":0}),
            Ok(Ok(v)) => json!({"c":"ok","v":v,"ep":["-"],"val":0}),
        },
        "walk_dir" => match guard(|| {
            q.walk_dir().map(|it| {
                let mut v = vec![];
                let mut err = None;
                for item in it.take(10_000) {
                    match item {
                        Ok(p) => v.push(cx.abs_of(&p)),
                        Err(e) => {
                            err = Some(e);
                        }
                    }
                }
                (v, err)
            })
        }) {
            Err(()) => json!({"c":"panic","v":[],"ep":["-"],"val":0}),
            Ok(Err(e)) => json!({"c":class_of(&e),"v":[],"ep":cx.ep(e.path()),"val":0}),
            // an Err item makes the walk a failed operation
            Ok(Ok((_v, Some(e)))) => json!({"c":class_of(&e),"v":[],"ep":cx.ep(e.path()),"val":0}),
            Ok(Ok((v, None))) => json!({"c":"ok","v":v,"ep":["-"],"val":0}),
        },
        "read_to_string" => match guard(|| q.read_to_string()) {
            Err(()) => json!({"c":"panic","v":[],"ep":["-"],"val":0}),
            Ok(Err(e)) => json!({"c":class_of(&e),"v":[],"ep":cx.ep(e.path()),"val":0}),
            Ok(Ok(s)) => json!({"c":"ok","v":crate::names::abs_bytes(s.as_bytes(), cx.b),"ep":["-"],"val":0}),
        },
        other => panic!("unknown observer op {other}"),
    }
}

pub fn run(lts: Arc<Lts>, o: &WalkOpts, pairs: usize) -> Value {
    let mut rng = StdRng::seed_from_u64(o.seed);
    let stem: String = format!("flt-{}-{}", o.cfg, o.names).chars().map(|c| if c.is_ascii_alphanumeric() || c == '-' { c } else { '_' }).collect();
    let mut out = TraceOut::new(&o.out, &stem);
    let mut executions = 0u64;
    let mut probes = 0u64;
    let mut maxn = 0u64;
    let obs_ops = ["exists", "is_dir", "is_file", "metadata", "read_dir", "walk_dir", "read_to_string"];
    let mut rec_edges: Vec<(usize, usize)> = vec![];
    for (si, es) in lts.edges.iter().enumerate() {
        for (ei, e) in es.iter().enumerate() {
            if matches!(e.op.op.as_str(), "copy_dir" | "move_dir") && e.allowed.len() == 1 && e.allowed[0] == "ok"
                && lts.universe.iter().enumerate().any(|(j, q)| q.len() > e.op.p.len() && q[..e.op.p.len()] == e.op.p[..] && lts.states[si][j][0] != 0)
            {
                rec_edges.push((si, ei));
            }
        }
    }
    for _ in 0..pairs {
        // copies / moves of a NON-EMPTY directory that succeed are rare among the edges (the destination must be
        // free): every seventh pair is drawn from them directly
        let forced: Option<(usize, usize)> = if !rec_edges.is_empty() && rng.gen_bool(0.15) { Some(rec_edges[rng.gen_range(0..rec_edges.len())]) } else { None };
        let si = forced.map(|x| x.0).unwrap_or_else(|| rng.gen_range(0..lts.states.len()));
        let s = lts.states[si].clone();
        // an LTS edge (bias towards composites and state-changing edges) or an observer operation
        let use_obs = forced.is_none() && rng.gen_bool(0.3);
        let (opj, is_obs): (Value, bool) = if use_obs {
            let op = obs_ops.choose(&mut rng).unwrap();
            let p = if rng.gen_bool(0.2) { vec![] } else { lts.universe.choose(&mut rng).unwrap().clone() };
            (json!({"op":op,"p":p,"q":[],"c":[],"f":"","tick":0}), true)
        } else {
            let es = &lts.edges[si];
            let comp: Vec<&Edge> = es.iter().filter(|e| e.to != si || matches!(e.op.op.as_str(), "create_dir_all" | "remove_dir_all" | "copy_file" | "move_file" | "copy_dir" | "move_dir")).collect();
            // recursive operations on a NON-EMPTY directory make the longest call sequences (and are a tiny share of the
            // edges): a third of the picks goes to them when the state has one
            let has_kids = |p: &Vec<String>| lts.universe.iter().enumerate().any(|(j, q)| q.len() > p.len() && q[..p.len()] == p[..] && s[j][0] != 0);
            let heavy: Vec<&Edge> = es.iter().filter(|e| matches!(e.op.op.as_str(), "copy_dir" | "move_dir" | "remove_dir_all") && has_kids(&e.op.p) && e.allowed.len() == 1 && e.allowed[0] == "ok").collect();
            let e: &Edge = if let Some((_, ei)) = forced {
                &es[ei]
            } else if !heavy.is_empty() && rng.gen_bool(0.35) {
                heavy.choose(&mut rng).unwrap()
            } else if !comp.is_empty() && rng.gen_bool(0.8) {
                comp.choose(&mut rng).unwrap()
            } else {
                es.choose(&mut rng).unwrap()
            };
            (e.op.to_json(), false)
        };
        // overlay configurations: in a third of the pairs the state is first given a HISTORY - an entry is removed
        // through the overlay (whiteout marker) - and the faulted operation re-creates something at that path
        // (marker and entry side by side if the fault hits between the two steps)
        let present: Vec<usize> = (0..lts.universe.len()).filter(|&i| s[i][0] != 0).collect();
        // (top-level overlays only: an altroot configuration has a twin world that would have to share the history)
        let prep: Option<(Vec<String>, bool)> = if o.cfg.starts_with("ovl") && !present.is_empty() && rng.gen_bool(0.35) {
            let i = *present.choose(&mut rng).unwrap();
            Some((lts.universe[i].clone(), s[i][0] == 1))
        } else {
            None
        };
        let (opj, is_obs) = match &prep {
            Some((p, _)) => {
                let op = *["create_file", "create_dir", "create_dir_all", "create_file"].choose(&mut rng).unwrap();
                (json!({"op":op,"p":p,"q":[],"c": if op == "create_file" { vec![1] } else { vec![] },"f":"","tick":0}), false)
            }
            None => (opj, is_obs),
        };
        let seed = rng.gen::<u64>();
        let mk = |lts: &Lts| -> Session {
            let mut r = StdRng::seed_from_u64(seed);
            let mut sess = new_session(lts, o, &s, &mut r);
            sess.light = false;
            if let Some((p, isdir)) = &prep {
                let rm = Op::from_json(&json!({"op": if *isdir { "remove_dir_all" } else { "remove_file" },"p":p,"q":[],"c":[],"f":"","tick":0}));
                let _ = exec(&sess.w.root, &sess.w.root, &rm, &sess.cx);
            }
            sess
        };
        let run_op = |sess: &mut Session| -> Value {
            if is_obs {
                obs_op(sess, opj["op"].as_str().unwrap(), &Op::from_json(&opj).p)
            } else {
                exec(&sess.w.root, &sess.w.root, &Op::from_json(&opj), &sess.cx).to_json()
            }
        };
        // fault-free probe: how many calls does the operation make into the wrapped filesystem?
        let mut probe = mk(&lts);
        if probe.w.faults.is_empty() {
            panic!("configuration {} has no fault(..) layer", o.cfg);
        }
        for f in &probe.w.faults {
            f.arm(-1);
        }
        let _ = run_op(&mut probe);
        let n: u64 = probe.w.faults.iter().map(|f| f.disarm()).max().unwrap_or(0);
        probes += 1;
        maxn = maxn.max(n);
        drop(probe);
        for k in 1..=n {
            let mut sess = mk(&lts);
            let init = sess.init_event();
            for f in &sess.w.faults {
                f.arm(k as i64);
            }
            let res = run_op(&mut sess);
            let mut fired = false;
            let mut method = String::new();
            for f in &sess.w.faults {
                f.disarm();
                if f.fired.load(std::sync::atomic::Ordering::SeqCst) {
                    fired = true;
                    method = f.fired_method.lock().unwrap().clone();
                }
            }
            if !fired {
                continue; // the faulted run took a shorter path than the probe: no fault was injected
            }
            sess.rot += 1;
            for l in &sess.w.layers {
                l.log.start();
            }
            let obs = observe(&sess.w.root, &sess.universe, &sess.cx, sess.rot);
            let mut ocalls = vec![];
            for (i, l) in sess.w.layers.iter().enumerate() {
                let mut seen = std::collections::BTreeSet::new();
                for (m, _p) in l.log.stop() {
                    if seen.insert(m) {
                        ocalls.push(json!([i + 1, m]));
                    }
                }
            }
            let mut e = opj.clone();
            e["ev"] = json!("fcall");
            e["k"] = json!(k);
            e["n"] = json!(n);
            e["method"] = json!(method);
            e["res"] = res;
            e["obs"] = obs;
            if !sess.w.layers.is_empty() {
                e["ocalls"] = Value::Array(ocalls);
                e["layers"] = Value::Array(sess.w.layers.iter().map(|l| raw_snapshot(&l.root, &sess.cx, true)).collect());
            }
            out.begin(&init);
            out.put(&e);
            executions += 1;
        }
    }
    out.finish();
    json!({"cfg":o.cfg,"mode":"faults","names":o.names,"b":o.b,"events":out.total_events,"segments":out.segments,"edges_run":executions,
           "distinct_state_ops":probes,"fault_probes":probes,"faulted_executions":executions,"max_calls_per_operation":maxn})
}
