//! C15 (poll schedules): the walk_dir stream of the async port is polled by hand with a no-op waker
//! while PendingFS makes the inner futures (read_dir, metadata, the directory stream) return Pending
//! according to a plan indexed by await point.  Plans: none, every placement of one or two pendings
//! of weight 1-2 (sampled in quick), seeded dense plans.  Trace_WalkAsync judges every run.
use crate::aworld::*;
use crate::lts::{Lts, TraceOut};
use crate::names::conc_bytes;
use crate::obs::Conc;
use async_std::io::WriteExt;
use futures::task::noop_waker;
use futures::Stream;
use rand::rngs::StdRng;
use rand::{Rng, SeedableRng};
use serde_json::{json, Value};
use std::path::Path;
use std::pin::Pin;
use std::sync::atomic::Ordering;
use std::task::{Context, Poll};

struct Run {
    c: &'static str,
    items: Vec<Vec<String>>,
    errs: usize,
    polls: usize,
    ended: bool,
    points: usize,
}

fn poll_walk(w: &AWorld, cx: &Conc, start: &vfs::async_vfs::AsyncVfsPath, plan: &[usize]) -> Run {
    poll_walk_f(w, cx, start, plan, 0)
}
fn poll_walk_f(w: &AWorld, cx: &Conc, start: &vfs::async_vfs::AsyncVfsPath, plan: &[usize], fail_md: usize) -> Run {
    let ctl = w.pend.as_ref().unwrap();
    ctl.fail_metadata_at.store(fail_md, Ordering::SeqCst);
    ctl.metadata_calls.store(0, Ordering::SeqCst);
    *ctl.plan.lock().unwrap() = plan.to_vec();
    ctl.next.store(0, Ordering::SeqCst);
    ctl.on.store(true, Ordering::SeqCst);
    let waker = noop_waker();
    let mut tcx = Context::from_waker(&waker);
    let r = std::panic::catch_unwind(std::panic::AssertUnwindSafe(|| {
        // walk_dir() itself awaits read_dir of the start directory: poll that future by hand too
        let t0 = std::time::Instant::now();
        let mut fut = Box::pin(start.walk_dir());
        let mut polls = 0usize;
        let mut stream = loop {
            polls += 1;
            match fut.as_mut().poll(&mut tcx) {
                Poll::Ready(Ok(s)) => break s,
                Poll::Ready(Err(_)) => return Run { c: "err", items: vec![], errs: 1, polls, ended: false, points: 0 },
                Poll::Pending => {
                    // real asynchronous I/O (AsyncPhysicalFS) needs wall-clock time, not more polls
                    if polls % 64 == 0 {
                        std::thread::sleep(std::time::Duration::from_micros(100));
                    }
                    if t0.elapsed().as_secs() > 20 {
                        return Run { c: "ok", items: vec![], errs: 0, polls, ended: false, points: 0 };
                    }
                }
            }
        };
        let mut items = vec![];
        let mut errs = 0;
        let mut ended = false;
        loop {
            polls += 1;
            if t0.elapsed().as_secs() > 20 {
                break;
            }
            match Pin::new(&mut stream).poll_next(&mut tcx) {
                Poll::Pending => {
                    if polls % 64 == 0 {
                        std::thread::sleep(std::time::Duration::from_micros(100));
                    }
                    continue;
                }
                Poll::Ready(None) => {
                    ended = true;
                    break;
                }
                Poll::Ready(Some(Ok(p))) => items.push(cx.names.abs_path(p.as_str()).unwrap_or_else(|| vec![format!("!raw:{}", p.as_str())])),
                Poll::Ready(Some(Err(_))) => errs += 1,
            }
        }
        Run { c: "ok", items, errs, polls, ended, points: 0 }
    }));
    ctl.on.store(false, Ordering::SeqCst);
    let points = ctl.next.load(Ordering::SeqCst);
    match r {
        Ok(mut run) => {
            run.points = points;
            run
        }
        Err(_) => Run { c: "panic", items: vec![], errs: 0, polls: 0, ended: false, points },
    }
}

use std::future::Future;

pub fn run(lts: &Lts, cfgs: &[String], seed: u64, trees: usize, dense: usize, pair_frac: f64, out_dir: &Path) -> Value {
    let mut rng = StdRng::seed_from_u64(seed);
    let mut out = TraceOut::new(out_dir, "awalk");
    let mut runs = 0u64;
    let mut maxpoints = 0usize;
    let mut nplans = 0u64;
    for cfg in cfgs {
        for _ in 0..trees {
            let si = rng.gen_range(0..lts.states.len());
            let s = &lts.states[si];
            if s.iter().all(|n| n[0] == 0) {
                continue;
            }
            let w = abuild(cfg, true);
            let cx = Conc::new("ascii", 1);
            w.rt.block_on(async {
                for (p, n) in lts.universe.iter().zip(s.iter()) {
                    match n[0] {
                        0 => {}
                        1 => apath(&cx, &w.root, p).create_dir().await.unwrap(),
                        _ => {
                            let mut h = apath(&cx, &w.root, p).create_file().await.unwrap();
                            h.write_all(&conc_bytes(&n[1..], 1)).await.unwrap();
                            h.flush().await.unwrap();
                        }
                    }
                }
            });
            let tree: Vec<Value> = lts.universe.iter().zip(s.iter()).map(|(p, n)| json!({"p":p,"k": if n[0]==0 {"none"} else if n[0]==1 {"dir"} else {"file"}})).collect();
            let start = w.root.clone();
            let reference = poll_walk(&w, &cx, &start, &[]);
            let n = reference.points.min(64); // (plans address the first 64 await points)
            maxpoints = maxpoints.max(n);
            let mut plans: Vec<Vec<usize>> = vec![vec![]];
            for i in 0..n {
                for wgt in 1..=2 {
                    let mut p = vec![0; n];
                    p[i] = wgt;
                    plans.push(p);
                }
            }
            for i in 0..n {
                for j in (i + 1)..n {
                    for (wi, wj) in [(1, 1), (2, 1), (1, 2)] {
                        if rng.gen_bool(pair_frac.min(1.0)) {
                            let mut p = vec![0; n];
                            p[i] = wi;
                            p[j] = wj;
                            plans.push(p);
                        }
                    }
                }
            }
            for _ in 0..dense {
                plans.push((0..n + 3).map(|_| if rng.gen_bool(0.5) { rng.gen_range(1..4) } else { 0 }).collect());
            }
            // a failing metadata call in the middle of the walk: an Err item, no panic, the stream still ends
            let nmd = w.pend.as_ref().unwrap().metadata_calls.load(Ordering::SeqCst);
            for k in 1..=nmd {
                for plan in [vec![], (0..n).map(|i| (i + k) % 2).collect::<Vec<_>>()] {
                    let r = poll_walk_f(&w, &cx, &start, &plan, k);
                    out.begin(&json!({"ev":"awalk","fault":k,"cfg":format!("async:{cfg}"),"tree":tree,"plan":plan,"c":r.c,"items":r.items,"errs":r.errs,"polls":r.polls,
                                      "ended":r.ended,"points":r.points,"ref":reference.items}));
                    runs += 1;
                }
            }
            for plan in plans {
                let r = poll_walk(&w, &cx, &start, &plan);
                out.begin(&json!({"ev":"awalk","fault":0,"cfg":format!("async:{cfg}"),"tree":tree,"plan":plan,"c":r.c,"items":r.items,"errs":r.errs,"polls":r.polls,
                                  "ended":r.ended,"points":r.points,"ref":reference.items}));
                runs += 1;
                nplans += 1;
            }
        }
    }
    out.finish();
    json!({"cfg":"awalk","mode":"poll-schedules","names":"ascii","b":1,"events":out.total_events,"segments":out.segments,"edges_run":runs,
           "distinct_state_ops":nplans,"max_await_points":maxpoints})
}
