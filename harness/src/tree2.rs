//! C11 driver: transfers between two filesystem instances (any two configurations).  Replays the
//! edges of the two-instance LTS (MC_Tree2): both worlds are constructed, one transfer is executed,
//! both worlds are observed completely.  Trace_Tree2 judges.
use crate::exec::*;
use crate::lts::TraceOut;
use crate::obs::*;
use crate::session::*;
use rand::rngs::StdRng;
use rand::{Rng, SeedableRng};
use serde_json::{json, Value};
use std::io::BufRead;
use std::path::Path;

fn inner(line: &str) -> Option<(String, Value)> {
    if !line.starts_with("<<\"") {
        return None;
    }
    let tag_end = line[3..].find('"')? + 3;
    let tag = line[3..tag_end].to_string();
    let start = line[tag_end + 1..].find('"')? + tag_end + 1;
    let end = line.rfind('"')?;
    let s: String = serde_json::from_str(&line[start..=end]).ok()?;
    Some((tag, serde_json::from_str(&s).ok()?))
}
fn snap_from(v: &Value) -> Snap {
    v.as_array().unwrap().iter().map(|n| n.as_array().unwrap().iter().map(|x| x.as_i64().unwrap()).collect()).collect()
}
fn path_of(v: &Value) -> Vec<String> {
    v.as_array().unwrap().iter().map(|s| s.as_str().unwrap().to_string()).collect()
}

pub fn run(lts_file: &Path, cfg1: &str, cfg2: &str, names: &str, b: usize, frac: f64, seed: u64, out_dir: &Path) -> Value {
    let f = std::io::BufReader::new(std::fs::File::open(lts_file).expect("lts2 file"));
    let mut universe: Vec<Vec<String>> = vec![];
    let mut rng = StdRng::seed_from_u64(seed);
    let stem = format!("x2-{}-{}-{}-{}", cfg1, cfg2, names, b).chars().map(|c| if c.is_ascii_alphanumeric() || c == '-' { c } else { '_' }).collect::<String>();
    let mut out = TraceOut::new(out_dir, &stem);
    let mut edges = 0u64;
    let mut total = 0u64;
    let mut fast_bad = 0u64;
    for line in f.lines() {
        let line = line.unwrap();
        let (tag, v) = match inner(&line) {
            Some(x) => x,
            None => continue,
        };
        if tag == "UNIVERSE" {
            universe = v.as_array().unwrap().iter().map(path_of).collect();
            continue;
        }
        if tag != "EDGE" {
            continue;
        }
        total += 1;
        if !rng.gen_bool(frac.min(1.0)) {
            continue;
        }
        let from = [snap_from(&v["from"][0]), snap_from(&v["from"][1])];
        let to = [snap_from(&v["to"][0]), snap_from(&v["to"][1])];
        let mut s1 = Session::new(cfg1, names, b, &universe);
        let mut s2 = Session::new(cfg2, names, b, &universe);
        s1.light = true;
        s2.light = true;
        // overlays: half of the time the whole state lives in the lowest layer (read-only source / copy-up)
        for (s, snap) in [(&s1, &from[0]), (&s2, &from[1])] {
            let nl = s.w.layers.len();
            if nl > 1 && rng.gen_bool(0.5) {
                let mut parts: Vec<Option<Snap>> = vec![None; nl];
                parts[nl - 1] = Some(snap.clone());
                s.populate_layers(&parts);
            } else {
                s.populate_state(snap);
            }
        }
        let o1 = observe(&s1.w.root, &universe, &s1.cx, 1);
        let o2 = observe(&s2.w.root, &universe, &s2.cx, 2);
        out.begin(&json!({"ev":"init2","cfgs":[cfg1,cfg2],"names":names,"b":b,"universe":universe,"obs":[o1,o2]}));
        let i = v["i"].as_u64().unwrap() as usize;
        let j = v["j"].as_u64().unwrap() as usize;
        let op = Op { op: v["op"].as_str().unwrap().to_string(), p: path_of(&v["p"]), q: path_of(&v["q"]), c: vec![], f: String::new(), tick: 0 };
        let roots = [&s1.w.root, &s2.w.root];
        let res = exec(roots[i - 1], roots[j - 1], &op, &s1.cx);
        let o1 = observe(&s1.w.root, &universe, &s1.cx, 3);
        let o2 = observe(&s2.w.root, &universe, &s2.cx, 4);
        let ok = v["allowed"].as_array().unwrap().iter().any(|a| a == res.cls.as_str())
            && (v["regime"] != "spec" || (snap_of(&o1) == to[0] && snap_of(&o2) == to[1]));
        if !ok {
            fast_bad += 1;
        }
        out.put(&json!({"ev":"call2","op":op.op,"i":i,"p":op.p,"j":j,"q":op.q,"res":res.to_json(),"obs":[o1,o2]}));
        edges += 1;
    }
    out.finish();
    json!({"cfg":format!("{cfg1} x {cfg2}"),"mode":"edges2","names":names,"b":b,"events":out.total_events,"segments":out.segments,"edges_run":edges,
           "distinct_state_ops":edges,"fast_disagreements":fast_bad,"lts_edges":total})
}
