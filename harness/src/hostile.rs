//! C07 confinement driver: hostile join arguments against altroot filesystems (rooted at P of a
//! recorded underlying filesystem with canaries beside and above P) and against PhysicalFS (rooted in a
//! sandbox directory with canaries around the root).  Every operation is applied to the joined path.
use crate::cfg::*;
use crate::lts::TraceOut;
use crate::names::*;
use crate::obs::*;
use rand::rngs::StdRng;
use rand::{Rng, SeedableRng};
use serde_json::{json, Value};
use std::io::{Read, Write};
use std::path::Path;
use vfs::*;

const CANARY: &[u8] = b"CANARY-outside-the-root";

fn fs_snapshot(dir: &Path, rel: &str, out: &mut Vec<Value>) {
    if let Ok(rd) = std::fs::read_dir(dir) {
        let mut names: Vec<_> = rd.filter_map(|e| e.ok()).collect();
        names.sort_by_key(|e| e.file_name());
        for e in names {
            let name = e.file_name().to_string_lossy().to_string();
            let r = if rel.is_empty() { name.clone() } else { format!("{rel}/{name}") };
            let md = match e.metadata() {
                Ok(m) => m,
                Err(_) => continue,
            };
            let p: Vec<&str> = r.split('/').collect();
            if md.is_dir() {
                out.push(json!({"p":p,"k":"dir","d":[]}));
                fs_snapshot(&e.path(), &r, out);
            } else {
                let bytes = std::fs::read(e.path()).unwrap_or_default();
                out.push(json!({"p":p,"k":"file","d":bytes.iter().map(|b| *b as i64).take(64).collect::<Vec<_>>()}));
            }
        }
    }
}

fn cls<T>(r: Result<VfsResult<T>, ()>) -> &'static str {
    match r {
        Err(()) => "panic",
        Ok(Err(_)) => "err",
        Ok(Ok(_)) => "ok",
    }
}

pub fn run(cfgs: &[String], cases_file: &str, seed: u64, sample: usize, out_dir: &Path) -> Value {
    let mut rng = StdRng::seed_from_u64(seed);
    let mut out = TraceOut::new(out_dir, "hostile");
    // hostile arguments: a fixed catalogue plus a seeded sample of the strings TLC enumerated (MC_Join)
    let mut args: Vec<String> = [
        "..", "../..", "/..", "../zc", "../../zc", "/../zc", "//zc", "///zc", "a/../../zc", "..//zc", "./../zc", "a/..//../zc", "//zc/..", "/./../zr/../zc",
        "../zd/zc", "//zd/zc", "../a", "//a", "..//a", "b/../../a", "/..//..//zc", "a/b/../../../zc", "%2e%2e/zc", "..\\zc", "....//zc", ".../zc", "//", "///", "/./", "..a/../zc",
        "\u{2025}/zc", "a/./../..", "../zr", "../zr/a", "//zr/../zc",
        // other things a backend might mistake for a separator or a parent reference
        "..\\..\\zc", "a\\..\\..\\zc", "/..\\zc", "..\\zd\\zc", "b\\a", "..;/zc", "..%2fzc", "..\u{2215}zc", "..\u{ff0f}zc", "zc\0", "a\0/../zc", "\0", "~/zc", "$HOME/zc", "..\\a",
    ]
    .iter()
    .map(|s| s.to_string())
    .collect();
    if !cases_file.is_empty() {
        if let Ok(txt) = std::fs::read_to_string(cases_file) {
            let lines: Vec<&str> = txt.lines().filter(|l| l.starts_with("<<\"CASE\"")).collect();
            for _ in 0..sample {
                let line = lines[rng.gen_range(0..lines.len())];
                let start = line.find(", \"").unwrap() + 2;
                let end = line.rfind('"').unwrap();
                let s: String = serde_json::from_str(&line[start..=end]).unwrap();
                let v: Value = serde_json::from_str(&s).unwrap();
                // tokens -> characters; the letter token becomes a canary / entry name fragment
                let a: String = v["arg"].as_array().unwrap().iter().map(|t| match t.as_str().unwrap() { "/" => "/", "." => ".", "a" => "zc", _ => "a" }).collect();
                args.push(a);
            }
        }
    }
    let mut n = 0u64;
    for cfg in cfgs {
        let term = parse(cfg);
        let is_phys_top = matches!(term, Term::Phys);
        for arg in &args {
            let w = build(cfg);
            let cx = Conc::new("ascii", 1);
            // content inside the root
            let _ = w.root.join("a").and_then(|p| p.create_file().map(|mut h| h.write_all(b"inside").unwrap()));
            let _ = w.root.join("b").and_then(|p| p.create_dir());
            let _ = w.root.join("b/a").and_then(|p| p.create_file().map(|mut h| h.write_all(b"inside2").unwrap()));
            let prefix: Vec<String> = w.under.as_ref().map(|u| u.prefix.clone()).unwrap_or_default();
            // canaries
            if let Some(u) = &w.under {
                for (p, isdir) in [("zc", false), ("zd", true), ("zd/zc", false)] {
                    if let Ok(q) = u.root.join(p) {
                        if isdir {
                            let _ = q.create_dir();
                        } else if let Ok(mut h) = q.create_file() {
                            let _ = h.write_all(CANARY);
                        }
                    }
                }
                let mut par = u.root.clone();
                for (i, c) in u.prefix.iter().enumerate() {
                    if i + 1 < u.prefix.len() {
                        par = par.join(c).unwrap();
                        if let Ok(mut h) = par.join("zc").and_then(|p| p.create_file()) {
                            let _ = h.write_all(CANARY);
                        }
                    }
                }
            }
            let sandbox = if is_phys_top { w.tmp.get(0).cloned() } else { None };
            if let Some(sb) = &sandbox {
                std::fs::write(sb.join("zc"), CANARY).unwrap();
                std::fs::create_dir_all(sb.join("zd")).unwrap();
                std::fs::write(sb.join("zd/zc"), CANARY).unwrap();
            }
            let snap = |w: &World| -> Value {
                if let Some(u) = &w.under {
                    raw_snapshot(&u.root, &cx, true)
                } else if let Some(sb) = &sandbox {
                    let mut v = vec![];
                    fs_snapshot(sb, "", &mut v);
                    Value::Array(v)
                } else {
                    json!([])
                }
            };
            let before = snap(&w);
            if let Some(u) = &w.under {
                u.log.start();
            }
            let joined = guard(|| w.root.join(arg));
            let mut ops = vec![];
            let mut leak = false;
            let jrec = match &joined {
                Err(()) => json!({"c":"panic","path":""}),
                Ok(Err(_)) => json!({"c":"err","path":""}),
                Ok(Ok(p)) => json!({"c":"ok","path":p.as_str()}),
            };
            if let Ok(Ok(p)) = &joined {
                let dest = w.root.join("copy_dest").unwrap();
                let mut rec = |op: &str, c: &str| ops.push(json!({"op":op,"c":c}));
                rec("exists", cls(guard(|| p.exists())));
                rec("metadata", cls(guard(|| p.metadata())));
                rec("read_dir", cls(guard(|| p.read_dir().map(|it| it.count()))));
                match guard(|| -> VfsResult<Vec<u8>> {
                    let mut h = p.open_file()?;
                    let mut b = vec![];
                    h.read_to_end(&mut b).map_err(VfsError::from)?;
                    Ok(b)
                }) {
                    Err(()) => rec("read", "panic"),
                    Ok(Err(_)) => rec("read", "err"),
                    Ok(Ok(b)) => {
                        if b == CANARY {
                            leak = true;
                        }
                        rec("read", "ok")
                    }
                }
                match guard(|| p.read_to_string()) {
                    Ok(Ok(s)) if s.as_bytes() == CANARY => leak = true,
                    Err(()) => rec("read_to_string", "panic"),
                    _ => {}
                }
                if !p.is_root() {
                    rec("copy_file_from", cls(guard(|| p.copy_file(&dest))));
                }
                if let Ok(Ok(s)) = guard(|| dest.read_to_string()) {
                    if s.as_bytes() == CANARY {
                        leak = true;
                    }
                }
                // the root itself: only observers (removing / overwriting the root is outside the properties)
                if !p.is_root() {
                rec("set_mtime", cls(guard(|| p.set_modification_time(tick(2)))));
                rec("append", cls(guard(|| p.append_file().map(|mut h| h.write_all(b"X")))));
                rec("create_file", cls(guard(|| p.create_file().map(|mut h| h.write_all(b"Y")))));
                rec("remove_file", cls(guard(|| p.remove_file())));
                rec("create_dir_all", cls(guard(|| p.create_dir_all())));
                rec("create_dir", cls(guard(|| p.create_dir())));
                rec("remove_dir", cls(guard(|| p.remove_dir())));
                rec("move_file_to", cls(guard(|| w.root.join("a").unwrap().move_file(p))));
                rec("copy_dir_to", cls(guard(|| w.root.join("b").unwrap().copy_dir(p))));
                rec("remove_dir_all", cls(guard(|| p.remove_dir_all())));
                }
            }
            let mut ucalls: Vec<Vec<String>> = vec![];
            if let Some(u) = &w.under {
                let mut seen = std::collections::BTreeSet::new();
                for (_m, path) in u.log.stop() {
                    if seen.insert(path.clone()) {
                        ucalls.push(cx.names.abs_path(&path).unwrap_or_else(|| vec![format!("!raw:{path}")]).iter().map(|c| c.trim_start_matches('!').to_string()).collect());
                    }
                }
            }
            let after = snap(&w);
            // for PhysicalFS the "prefix" is the root directory inside the sandbox
            let pfx: Vec<String> = if is_phys_top { vec!["root".into()] } else { prefix.clone() };
            out.begin(&json!({"ev":"hostile","cfg":cfg,"arg":arg,"prefix":pfx,"join":jrec,"ops":ops,"ucalls":ucalls,"outside_before":before,"outside_after":after,"leak":leak,
                "shape":{"dotdot":arg.contains(".."),"dslash":arg.contains("//"),"abs":arg.starts_with('/')}}));
            n += 1;
        }
    }
    out.finish();
    json!({"cfg":"hostile","mode":"confinement","names":"ascii","b":1,"events":out.total_events,"segments":out.segments,"edges_run":n,"distinct_state_ops":n,"arguments":args.len()})
}

/// C13: directory content found on disk that the library did not create (non-UTF-8 names, dangling
/// symlinks, a symlink loop) must not make PhysicalFS (or adapters over it) panic.
pub fn run_hostile_dir(cfgs: &[String], out_dir: &Path) -> Value {
    use std::os::unix::ffi::OsStringExt;
    let mut out = TraceOut::new(out_dir, "hostiledir");
    let mut n = 0u64;
    for cfg in cfgs {
        let w = build(cfg);
        let sandbox = match w.tmp.get(0) {
            Some(s) => s.clone(),
            None => continue,
        };
        // locate the directory that backs the configuration's root (phys: <sandbox>/root; alt(P,phys): <sandbox>/root/P)
        let mut backing = sandbox.join("root");
        if let Some(u) = &w.under {
            for c in &u.prefix {
                backing = backing.join(c);
            }
        }
        let _ = w.root.join("d").and_then(|p| p.create_dir());
        let _ = w.root.join("f").and_then(|p| p.create_file().map(|mut h| h.write_all(b"x").unwrap()));
        for dir in [backing.clone(), backing.join("d")] {
            let bad = std::ffi::OsString::from_vec(vec![b'n', 0xFF, 0xFE, b'x']);
            let _ = std::fs::write(dir.join(&bad), b"non-utf8 name");
            let _ = std::os::unix::fs::symlink("/nonexistent/target", dir.join("dangling"));
            let _ = std::os::unix::fs::symlink("loop", dir.join("loop"));
            let _ = std::os::unix::fs::symlink(".", dir.join("self"));
        }
        let mut ops = vec![];
        let mut occupied: Vec<Value> = vec![];
        let mut rec = |op: &str, c: &str| ops.push(json!({"op":op,"c":c}));
        let root = &w.root;
        rec("read_dir(root)", cls(guard(|| root.read_dir().map(|it| it.count()))));
        rec("walk_dir(root)", cls(guard(|| root.walk_dir().map(|it| it.take(200).count()))));
        for name in ["dangling", "loop", "d/dangling", "d/loop", "self"] {
            let p = match root.join(name) {
                Ok(p) => p,
                Err(_) => continue,
            };
            rec(&format!("exists({name})"), cls(guard(|| p.exists())));
            rec(&format!("metadata({name})"), cls(guard(|| p.metadata())));
            rec(&format!("is_dir({name})"), cls(guard(|| p.is_dir())));
            rec(&format!("read_dir({name})"), cls(guard(|| p.read_dir().map(|it| it.take(50).count()))));
            rec(&format!("open_file({name})"), cls(guard(|| p.open_file().map(|mut h| { let mut b = vec![]; let _ = h.read_to_end(&mut b); }))));
            rec(&format!("read_to_string({name})"), cls(guard(|| p.read_to_string())));
            let cd = guard(|| p.create_dir());
            if let Ok(Err(e)) = &cd {
                // C12: an occupied create_dir target (here: by a symbolic link) is file-exists / directory-exists,
                // labelled with the caller's path
                occupied.push(json!({"op": format!("create_dir({name})"), "k": class_of(e), "ep_ok": e.path() == p.as_str()}));
            } else if let Ok(Ok(())) = &cd {
                occupied.push(json!({"op": format!("create_dir({name})"), "k": "ok", "ep_ok": true}));
            }
            rec(&format!("create_dir({name})"), cls(cd));
            rec(&format!("create_dir_all({name}/x)"), cls(guard(|| p.join("x").and_then(|q| q.create_dir_all()))));
            rec(&format!("create_file({name})"), cls(guard(|| p.create_file().map(|mut h| h.write_all(b"y")))));
            rec(&format!("append_file({name})"), cls(guard(|| p.append_file().map(|mut h| h.write_all(b"y")))));
            rec(&format!("set_mtime({name})"), cls(guard(|| p.set_modification_time(tick(2)))));
            rec(&format!("copy_file({name})"), cls(guard(|| p.copy_file(&root.join("copy_of").unwrap()))));
            rec(&format!("remove_file({name})"), cls(guard(|| p.remove_file())));
            rec(&format!("remove_dir({name})"), cls(guard(|| p.remove_dir())));
        }
        rec("read_dir(d)", cls(guard(|| root.join("d").unwrap().read_dir().map(|it| it.count()))));
        rec("copy_dir(d)", cls(guard(|| root.join("d").unwrap().copy_dir(&root.join("d2").unwrap()))));
        rec("move_dir(d)", cls(guard(|| root.join("d").unwrap().move_dir(&root.join("d3").unwrap()))));
        rec("remove_dir_all(d3)", cls(guard(|| root.join("d3").unwrap().remove_dir_all())));
        rec("remove_dir_all(d)", cls(guard(|| root.join("d").unwrap().remove_dir_all())));
        rec("walk_dir(root) again", cls(guard(|| root.walk_dir().map(|it| it.take(200).count()))));
        // only where the path layer talks to the physical directory directly or through altroots
        let direct = !cfg.contains("ovl");
        out.begin(&json!({"ev":"hostile","kindtag":"hostiledir","cfg":cfg,"arg":"<directory content prepared with std::fs: non-UTF-8 name, dangling symlink, symlink loop>","prefix":[],
            "occupied": if direct { occupied } else { vec![] },
            "join":{"c":"ok","path":""},"ops":ops,"ucalls":[],"outside_before":[],"outside_after":[],"leak":false,"shape":{"dotdot":false,"dslash":false,"abs":false}}));
        n += 1;
    }
    out.finish();
    json!({"cfg":"hostiledir","mode":"hostile-directory","names":"ascii","b":1,"events":out.total_events,"segments":out.segments,"edges_run":n,"distinct_state_ops":n})
}

/// C13: every operation with the ROOT as its target (or destination) on every configuration: outcomes are
/// unspecified (several of them remove or overwrite the root), but nothing may panic.
pub fn run_rootops(cfgs: &[String], out_dir: &Path) -> Value {
    let mut out = TraceOut::new(out_dir, "rootops");
    let mut n = 0u64;
    for cfg in cfgs {
        let mut ops = vec![];
        let mut twinpairs: Vec<Value> = vec![];
        let mut rec = |op: &str, c: &str| ops.push(json!({"op":op,"c":c}));
        let clsb = |r: Result<VfsResult<bool>, ()>| -> String {
            match r {
                Err(()) => "panic".into(),
                Ok(Err(_)) => "err".into(),
                Ok(Ok(b)) => format!("ok:{b}"),
            }
        };
        let fresh = || {
            let w = build(cfg);
            let _ = w.root.join("a").and_then(|p| p.create_dir());
            let _ = w.root.join("a/b").and_then(|p| p.create_file().map(|mut h| h.write_all(b"x").unwrap()));
            let _ = w.root.join("f").and_then(|p| p.create_file().map(|mut h| h.write_all(b"y").unwrap()));
            w
        };
        macro_rules! on_fresh {
            ($name:expr, $f:expr) => {{
                let w = fresh();
                let root = w.root.clone();
                let c = cls(guard(|| $f(&root)));
                rec($name, c);
                // the filesystem must stay usable without panics afterwards
                rec(&format!("{} then exists", $name), cls(guard(|| root.exists())));
                rec(&format!("{} then read_dir", $name), cls(guard(|| root.read_dir().map(|it| it.count()))));
                rec(&format!("{} then create_file", $name), cls(guard(|| root.join("g").and_then(|p| p.create_file().map(|mut h| h.write_all(b"z"))))));
                // C07 on the root itself: the same call on P of the underlying filesystem of an identical second
                // world has the same outcome, and afterwards both answer the same about their root
                let w1 = fresh();
                let w2 = fresh();
                if let (Some(_), Some(u2)) = (&w1.under, &w2.under) {
                    let r1 = w1.root.clone();
                    let peer = if u2.prefix.is_empty() { u2.root.clone() } else { u2.root.join(u2.prefix.join("/")).unwrap() };
                    let probe = |r: &VfsPath, c: &'static str| -> Value {
                        json!([c, clsb(guard(|| r.exists())), clsb(guard(|| r.is_dir())), cls(guard(|| r.read_dir().map(|it| it.count()))),
                               clsb(guard(|| r.join("a").and_then(|p| p.exists()))), cls(guard(|| r.join("g").and_then(|p| p.create_dir())))])
                    };
                    let c1 = cls(guard(|| $f(&r1)));
                    let c2 = cls(guard(|| $f(&peer)));
                    twinpairs.push(json!({"op": $name, "alt": probe(&r1, c1), "under": probe(&peer, c2)}));
                }
            }};
        }
        on_fresh!("create_dir(root)", |r: &VfsPath| r.create_dir());
        on_fresh!("create_dir_all(root)", |r: &VfsPath| r.create_dir_all());
        on_fresh!("create_file(root)", |r: &VfsPath| r.create_file().map(|mut h| h.write_all(b"q")));
        on_fresh!("append_file(root)", |r: &VfsPath| r.append_file().map(|mut h| h.write_all(b"q")));
        on_fresh!("open_file(root)", |r: &VfsPath| r.open_file().map(|mut h| { let mut b = vec![]; let _ = h.read_to_end(&mut b); }));
        on_fresh!("read_to_string(root)", |r: &VfsPath| r.read_to_string());
        on_fresh!("remove_file(root)", |r: &VfsPath| r.remove_file());
        on_fresh!("remove_dir(root)", |r: &VfsPath| r.remove_dir());
        on_fresh!("set_mtime(root)", |r: &VfsPath| r.set_modification_time(tick(1)));
        on_fresh!("set_ctime(root)", |r: &VfsPath| r.set_creation_time(tick(1)));
        on_fresh!("copy_file(root->x)", |r: &VfsPath| r.copy_file(&r.join("x").unwrap()));
        on_fresh!("move_file(root->x)", |r: &VfsPath| r.move_file(&r.join("x").unwrap()));
        on_fresh!("copy_file(f->root)", |r: &VfsPath| r.join("f").unwrap().copy_file(r));
        on_fresh!("move_file(f->root)", |r: &VfsPath| r.join("f").unwrap().move_file(r));
        on_fresh!("copy_dir(a->root)", |r: &VfsPath| r.join("a").unwrap().copy_dir(r));
        on_fresh!("move_dir(a->root)", |r: &VfsPath| r.join("a").unwrap().move_dir(r));
        on_fresh!("remove_dir_all(root)", |r: &VfsPath| r.remove_dir_all());
        on_fresh!("walk_dir(root)", |r: &VfsPath| r.walk_dir().map(|it| it.take(100).count()));
        on_fresh!("metadata(root)", |r: &VfsPath| r.metadata());
        // ... and the same filesystem after its own root directory has been taken away behind its back
        // (a PhysicalFS whose directory was deleted, an altroot whose base directory was removed)
        {
            let w = fresh();
            let mut gone = false;
            if let Some(sandbox) = w.tmp.get(0) {
                gone = std::fs::remove_dir_all(sandbox.join("root")).is_ok();
            } else if let Some(u) = &w.under {
                let base = u.root.join(u.prefix.join("/")).unwrap();
                gone = base.remove_dir_all().is_ok();
            }
            if gone {
                let root = w.root.clone();
                for name in ["", "x", "x/y/z", "a", "a/b", "f"] {
                    let p = if name.is_empty() { root.clone() } else { root.join(name).unwrap() };
                    let tag = |op: &str| format!("[root gone] {op}({name})");
                    rec(&tag("exists"), cls(guard(|| p.exists())));
                    rec(&tag("metadata"), cls(guard(|| p.metadata())));
                    rec(&tag("is_dir"), cls(guard(|| p.is_dir())));
                    rec(&tag("read_dir"), cls(guard(|| p.read_dir().map(|it| it.count()))));
                    rec(&tag("walk_dir"), cls(guard(|| p.walk_dir().map(|it| it.take(50).count()))));
                    rec(&tag("open_file"), cls(guard(|| p.open_file().map(|mut h| { let mut b = vec![]; let _ = h.read_to_end(&mut b); }))));
                    rec(&tag("create_dir"), cls(guard(|| p.create_dir())));
                    rec(&tag("create_dir_all"), cls(guard(|| p.create_dir_all())));
                    rec(&tag("create_file"), cls(guard(|| p.create_file().map(|mut h| h.write_all(b"q")))));
                    rec(&tag("append_file"), cls(guard(|| p.append_file().map(|mut h| h.write_all(b"q")))));
                    rec(&tag("set_mtime"), cls(guard(|| p.set_modification_time(tick(1)))));
                    rec(&tag("remove_file"), cls(guard(|| p.remove_file())));
                    rec(&tag("remove_dir"), cls(guard(|| p.remove_dir())));
                    rec(&tag("remove_dir_all"), cls(guard(|| p.remove_dir_all())));
                    rec(&tag("copy_file"), cls(guard(|| p.copy_file(&root.join("cp").unwrap()))));
                    if !name.is_empty() {
                        // (moving the root below itself is the documented non-terminating case)
                        rec(&tag("move_dir"), cls(guard(|| p.move_dir(&root.join("mv").unwrap()))));
                    }
                }
            }
        }
        out.begin(&json!({"ev":"hostile","kindtag":"rootops","cfg":cfg,"arg":"<operations with the root as target or destination>","prefix":[],
            "twinpairs": twinpairs,
            "join":{"c":"ok","path":""},"ops":ops,"ucalls":[],"outside_before":[],"outside_after":[],"leak":false,"shape":{"dotdot":false,"dslash":false,"abs":false}}));
        n += 1;
    }
    out.finish();
    json!({"cfg":"rootops","mode":"root-operations","names":"ascii","b":1,"events":out.total_events,"segments":out.segments,"edges_run":n * 19 * 4,"distinct_state_ops":n * 19})
}

/// async counterpart of run_hostile_dir + run_rootops (C13 names the async port explicitly)
pub fn run_async_hostile(cfgs: &[String], out_dir: &Path) -> Value {
    use crate::aworld::abuild;
    use futures::{AsyncReadExt, AsyncWriteExt, StreamExt};
    use std::os::unix::ffi::OsStringExt;
    use vfs::async_vfs::AsyncVfsPath;
    let mut out = TraceOut::new(out_dir, "ahostile");
    let mut n = 0u64;
    for cfg in cfgs {
        let w = abuild(cfg, false);
        let root = w.root.clone();
        let mut ops = vec![];
        let mut rec = |op: &str, c: &str| ops.push(json!({"op":op,"c":c}));
        macro_rules! run {
            ($name:expr, $fut:expr) => {{
                let r = guard(|| w.rt.block_on(async { $fut.await }));
                rec(&$name, cls(r));
            }};
        }
        let _ = guard(|| w.rt.block_on(async {
            let _ = root.join("d")?.create_dir().await;
            let mut h = root.join("f")?.create_file().await?;
            let _ = h.write_all(b"x").await;
            let _ = h.close().await;
            let mut h = root.join("d/g")?.create_file().await?;
            let _ = h.write_all(b"y").await;
            let _ = h.close().await;
            Ok::<(), vfs::VfsError>(())
        }));
        // hostile directory content where a physical directory backs the root
        if let Some(sandbox) = w.tmp.get(0) {
            let mut backing = sandbox.join("root");
            if let crate::cfg::Term::Alt(dir, _) = &w.term {
                for c in dir {
                    backing = backing.join(c);
                }
            }
            for dir in [backing.clone(), backing.join("d")] {
                let bad = std::ffi::OsString::from_vec(vec![b'n', 0xFF, 0xFE, b'x']);
                let _ = std::fs::write(dir.join(&bad), b"non-utf8 name");
                let _ = std::os::unix::fs::symlink("/nonexistent/target", dir.join("dangling"));
                let _ = std::os::unix::fs::symlink("loop", dir.join("loop"));
            }
        }
        async fn count_dir(p: &AsyncVfsPath) -> vfs::VfsResult<usize> {
            Ok(p.read_dir().await?.take(200).count().await)
        }
        async fn count_walk(p: &AsyncVfsPath) -> vfs::VfsResult<usize> {
            Ok(p.walk_dir().await?.take(200).count().await)
        }
        async fn slurp(p: &AsyncVfsPath) -> vfs::VfsResult<usize> {
            let mut h = p.open_file().await?;
            let mut b = vec![];
            let _ = h.read_to_end(&mut b).await;
            Ok(b.len())
        }
        async fn put(p: &AsyncVfsPath, append: bool) -> vfs::VfsResult<()> {
            let mut h = if append { p.append_file().await? } else { p.create_file().await? };
            let _ = h.write_all(b"q").await;
            let _ = h.close().await;
            Ok(())
        }
        run!("read_dir(root)".to_string(), count_dir(&root));
        run!("walk_dir(root)".to_string(), count_walk(&root));
        for name in ["dangling", "loop", "d/dangling", "d/loop", "f", "d", "missing", ""] {
            let p = match root.join(name) {
                Ok(p) => p,
                Err(_) => continue,
            };
            let x = root.join("copy_of").unwrap();
            run!(format!("exists({name})"), p.exists());
            run!(format!("metadata({name})"), p.metadata());
            run!(format!("is_dir({name})"), p.is_dir());
            run!(format!("is_file({name})"), p.is_file());
            run!(format!("read_dir({name})"), count_dir(&p));
            run!(format!("walk_dir({name})"), count_walk(&p));
            run!(format!("open_file({name})"), slurp(&p));
            run!(format!("read_to_string({name})"), p.read_to_string());
            run!(format!("create_dir({name})"), p.create_dir());
            run!(format!("create_dir_all({name})"), p.create_dir_all());
            run!(format!("create_file({name})"), put(&p, false));
            run!(format!("append_file({name})"), put(&p, true));
            run!(format!("set_mtime({name})"), p.set_modification_time(tick(2)));
            run!(format!("set_ctime({name})"), p.set_creation_time(tick(2)));
            run!(format!("set_atime({name})"), p.set_access_time(tick(2)));
            run!(format!("copy_file({name})"), p.copy_file(&x));
            run!(format!("copy_file(->{name})"), root.join("f").unwrap().copy_file(&p));
            run!(format!("move_file(->{name})"), root.join("f").unwrap().move_file(&p));
            run!(format!("remove_file({name})"), p.remove_file());
            run!(format!("remove_dir({name})"), p.remove_dir());
            run!(format!("exists(root) after {name}"), root.exists());
            run!(format!("read_dir(root) after {name}"), count_dir(&root));
        }
        run!("copy_dir(d)".to_string(), root.join("d").unwrap().copy_dir(&root.join("d2").unwrap()));
        run!("move_dir(d)".to_string(), root.join("d").unwrap().move_dir(&root.join("d3").unwrap()));
        run!("remove_dir_all(d3)".to_string(), root.join("d3").unwrap().remove_dir_all());
        run!("remove_dir_all(root)".to_string(), root.remove_dir_all());
        run!("walk_dir(root) again".to_string(), count_walk(&root));
        // the same kind of calls driven by an executor that is NOT tokio (async-std's): the library may not
        // assume a particular runtime is running
        {
            let w2 = abuild(cfg, false);
            let r2 = w2.root.clone();
            macro_rules! run2 {
                ($name:expr, $fut:expr) => {{
                    let r = guard(|| async_std::task::block_on(async { $fut.await }));
                    rec(&format!("[async-std executor] {}", $name), cls(r));
                }};
            }
            run2!("create_dir(d)", async { r2.join("d")?.create_dir().await });
            run2!("create_file(f)", put(&r2.join("f").unwrap(), false));
            run2!("append_file(f)", put(&r2.join("f").unwrap(), true));
            run2!("open_file(f)", slurp(&r2.join("f").unwrap()));
            run2!("metadata(f)", r2.join("f").unwrap().metadata());
            run2!("set_mtime(f)", r2.join("f").unwrap().set_modification_time(tick(2)));
            run2!("set_atime(f)", r2.join("f").unwrap().set_access_time(tick(3)));
            run2!("set_ctime(f)", r2.join("f").unwrap().set_creation_time(tick(4)));
            run2!("set_mtime(d)", r2.join("d").unwrap().set_modification_time(tick(2)));
            run2!("set_mtime(missing)", r2.join("missing").unwrap().set_modification_time(tick(2)));
            run2!("read_dir(root)", count_dir(&r2));
            run2!("walk_dir(root)", count_walk(&r2));
            run2!("copy_file(f->g)", r2.join("f").unwrap().copy_file(&r2.join("g").unwrap()));
            run2!("move_file(g->h)", r2.join("g").unwrap().move_file(&r2.join("h").unwrap()));
            run2!("copy_dir(d->d2)", r2.join("d").unwrap().copy_dir(&r2.join("d2").unwrap()));
            run2!("move_dir(d2->d3)", r2.join("d2").unwrap().move_dir(&r2.join("d3").unwrap()));
            run2!("remove_file(h)", r2.join("h").unwrap().remove_file());
            run2!("remove_dir_all(d3)", r2.join("d3").unwrap().remove_dir_all());
            run2!("exists(f)", r2.join("f").unwrap().exists());
        }
        out.begin(&json!({"ev":"hostile","kindtag":"ahostile","cfg":format!("async:{cfg}"),"arg":"<async port: hostile directory content, operations on the root, wrong-typed targets>","prefix":[],
            "join":{"c":"ok","path":""},"ops":ops,"ucalls":[],"outside_before":[],"outside_after":[],"leak":false,"shape":{"dotdot":false,"dslash":false,"abs":false}}));
        n += 1;
    }
    out.finish();
    json!({"cfg":"ahostile","mode":"async-hostile","names":"ascii","b":1,"events":out.total_events,"segments":out.segments,"edges_run":n * 190,"distinct_state_ops":n * 190})
}
