//! C18 driver: EmbeddedFS over the committed fixture folder, judged against Level A in read-only
//! mode; the ground truth of the init event is the observation of a PhysicalFS on a copy of the
//! same folder.
use crate::exec::*;
use crate::lts::TraceOut;
use crate::obs::*;
use rust_embed::RustEmbed;
use serde_json::{json, Value};
use std::path::Path;
use vfs::*;

#[derive(RustEmbed, Debug)]
#[folder = "fixtures/emb"]
pub struct Fixture;

fn copy_tree(src: &Path, dst: &Path) {
    std::fs::create_dir_all(dst).unwrap();
    for e in std::fs::read_dir(src).unwrap() {
        let e = e.unwrap();
        let to = dst.join(e.file_name());
        if e.file_type().unwrap().is_dir() {
            copy_tree(&e.path(), &to);
        } else {
            std::fs::copy(e.path(), &to).unwrap();
        }
    }
}
fn pv(s: &str) -> Vec<String> {
    s.split('/').map(|x| x.to_string()).collect()
}

pub fn run(out_dir: &Path) -> Value {
    let cx = Conc::new("fixture", 1);
    // universe: every embedded file and implied directory, absent siblings, prefixes/extensions of names, paths below files
    let universe: Vec<Vec<String>> = ["a", "b", "c", "d", "e", "f", "a/a", "b/a", "b/b", "b/d", "b/e", "b/f", "d/a", "d/e", "d/f", "c/a", "d/b", "b/d/c", "b/d/a", "b/d/e", "b/a/a", "d/e/a", "d/f/e", "d/b/a", "d/b/b"]
        .iter().map(|s| pv(s)).collect();
    let tmp = crate::cfg::fresh_tmp();
    let fixture_dir = Path::new(env!("CARGO_MANIFEST_DIR")).join("fixtures/emb");
    copy_tree(&fixture_dir, &tmp.join("root"));
    let phys: VfsPath = PhysicalFS::new(tmp.join("root")).into();
    let emb: VfsPath = EmbeddedFS::<Fixture>::new().into();
    let mut out = TraceOut::new(out_dir, "emb");
    let truth = observe(&phys, &universe, &cx, 1);
    out.begin(&json!({"ev":"init","cfg":"phys(fixture)","kind":"phys","sup":["mo","ac"],"ro":false,"names":"fixture","b":1,"universe":universe,"obs":truth}));
    let mut n = 0u64;
    let ops = ["create_dir", "create_file", "append_file", "remove_file", "remove_dir", "create_dir_all", "remove_dir_all", "set_time"];
    let xfer = ["copy_file", "move_file", "copy_dir", "move_dir"];
    // one segment per operation kind: init (with the ground truth) + the operation on every path of the universe
    for (i, op) in ops.iter().chain(xfer.iter()).enumerate() {
        let obs = observe(&emb, &universe, &cx, i);
        out.begin(&json!({"ev":"init","cfg":"emb","kind":"emb","sup":[],"ro":true,"names":"fixture","b":1,"universe":universe,"obs":obs,"truth":truth}));
        for p in &universe {
            let dests: Vec<Vec<String>> = if xfer.contains(op) { vec![pv("e"), pv("d/a"), pv("a"), pv("b/d/a")] } else { vec![vec![]] };
            for q in dests {
                if xfer.contains(op) && (q.len() >= p.len() && q[..p.len()] == p[..]) {
                    continue; // never into the source's own subtree
                }
                for f in if *op == "set_time" { vec!["cr", "mo", "ac"] } else { vec![""] } {
                    let o = Op { op: op.to_string(), p: p.clone(), q: q.clone(), c: if *op == "create_file" || *op == "append_file" { vec![1] } else { vec![] }, f: f.to_string(), tick: 2 };
                    let pre_p = md_json(&cx, guard(|| cx.path(&emb, &o.p).metadata()));
                    let res = exec(&emb, &emb, &o, &cx);
                    let post = md_json(&cx, guard(|| cx.path(&emb, &o.p).metadata()));
                    let obs = observe(&emb, &universe, &cx, n as usize);
                    let mut e = o.to_json();
                    e["ev"] = json!("call");
                    e["res"] = res.to_json();
                    e["pre"] = json!({"p":pre_p,"q":{"c":"skip"}});
                    e["post"] = post;
                    e["obs"] = obs;
                    out.put(&e);
                    n += 1;
                }
            }
        }
    }
    out.finish();
    let _ = std::fs::remove_dir_all(&tmp);
    json!({"cfg":"emb","mode":"embedded","names":"fixture","b":1,"events":out.total_events,"segments":out.segments,"edges_run":n,"distinct_state_ops":n,"universe_paths":universe.len()})
}
