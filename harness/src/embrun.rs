//! C18 driver: EmbeddedFS over the committed fixture folder, judged against Level A in read-only
//! mode; the ground truth of the init event is the observation of a PhysicalFS on a copy of the
//! same folder.
use crate::exec::*;
use crate::lts::TraceOut;
use crate::obs::*;
use rust_embed::RustEmbed;
use serde_json::{json, Value};
use std::path::Path;
use vfs::*;

#[derive(RustEmbed, Debug)]
#[folder = "fixtures/emb"]
pub struct Fixture;

fn copy_tree(src: &Path, dst: &Path) {
    std::fs::create_dir_all(dst).unwrap();
    for e in std::fs::read_dir(src).unwrap() {
        let e = e.unwrap();
        let to = dst.join(e.file_name());
        if e.file_type().unwrap().is_dir() {
            copy_tree(&e.path(), &to);
        } else {
            std::fs::copy(e.path(), &to).unwrap();
        }
    }
}
fn pv(s: &str) -> Vec<String> {
    s.split('/').map(|x| x.to_string()).collect()
}

pub fn run(out_dir: &Path) -> Value {
    let cx = Conc::new("fixture", 1);
    // universe: every embedded file and implied directory, absent siblings, prefixes/extensions of names, paths below files
    let universe: Vec<Vec<String>> = ["a", "b", "c", "d", "e", "f", "a/a", "b/a", "b/b", "b/d", "b/e", "b/f", "d/a", "d/e", "d/f", "c/a", "d/b", "b/d/c", "b/d/a", "b/d/e", "b/a/a", "d/e/a", "d/f/e", "d/b/a", "d/b/b"]
        .iter().map(|s| pv(s)).collect();
    let tmp = crate::cfg::fresh_tmp();
    let fixture_dir = Path::new(env!("CARGO_MANIFEST_DIR")).join("fixtures/emb");
    copy_tree(&fixture_dir, &tmp.join("root"));
    let phys: VfsPath = PhysicalFS::new(tmp.join("root")).into();
    let mut out = TraceOut::new(out_dir, "emb");
    let truth = observe(&phys, &universe, &cx, 1);
    // (a constructor that panics on the fixture's names is data about the code under test, not a tool error)
    let emb: VfsPath = match guard(|| EmbeddedFS::<Fixture>::new()) {
        Ok(fs) => fs.into(),
        Err(()) => {
            out.begin(&json!({"ev":"init","cfg":"emb","kind":"emb","sup":[],"ro":true,"names":"fixture","b":1,"universe":universe,"obs":truth,"popfail":["EmbeddedFS::new -> panic"]}));
            out.finish();
            let _ = std::fs::remove_dir_all(&tmp);
            return json!({"cfg":"emb","mode":"embedded","names":"fixture","b":1,"events":out.total_events,"segments":out.segments,"edges_run":0,"distinct_state_ops":0,"universe_paths":universe.len()});
        }
    };
    out.begin(&json!({"ev":"init","cfg":"phys(fixture)","kind":"phys","sup":["mo","ac"],"ro":false,"names":"fixture","b":1,"universe":universe,"obs":truth}));
    let mut n = 0u64;
    let ops = ["create_dir", "create_file", "append_file", "remove_file", "remove_dir", "create_dir_all", "remove_dir_all", "set_time"];
    let xfer = ["copy_file", "move_file", "copy_dir", "move_dir"];
    // one segment per operation kind: init (with the ground truth) + the operation on every path of the universe
    for (i, op) in ops.iter().chain(xfer.iter()).enumerate() {
        let obs = observe(&emb, &universe, &cx, i);
        out.begin(&json!({"ev":"init","cfg":"emb","kind":"emb","sup":[],"ro":true,"names":"fixture","b":1,"universe":universe,"obs":obs,"truth":truth}));
        for p in &universe {
            let dests: Vec<Vec<String>> = if xfer.contains(op) { vec![pv("e"), pv("d/a"), pv("a"), pv("b/d/a")] } else { vec![vec![]] };
            for q in dests {
                if xfer.contains(op) && (q.len() >= p.len() && q[..p.len()] == p[..]) {
                    continue; // never into the source's own subtree
                }
                for f in if *op == "set_time" { vec!["cr", "mo", "ac"] } else { vec![""] } {
                    let o = Op { op: op.to_string(), p: p.clone(), q: q.clone(), c: if *op == "create_file" || *op == "append_file" { vec![1] } else { vec![] }, f: f.to_string(), tick: 2 };
                    let pre_p = md_json(&cx, guard(|| cx.path(&emb, &o.p).metadata()));
                    let res = exec(&emb, &emb, &o, &cx);
                    let post = md_json(&cx, guard(|| cx.path(&emb, &o.p).metadata()));
                    let obs = observe(&emb, &universe, &cx, n as usize);
                    let mut e = o.to_json();
                    e["ev"] = json!("call");
                    e["res"] = res.to_json();
                    e["pre"] = json!({"p":pre_p,"q":{"c":"skip"}});
                    e["post"] = post;
                    e["obs"] = obs;
                    out.put(&e);
                    n += 1;
                }
            }
        }
    }
    out.finish();
    let _ = std::fs::remove_dir_all(&tmp);
    json!({"cfg":"emb","mode":"embedded","names":"fixture","b":1,"events":out.total_events,"segments":out.segments,"edges_run":n,"distinct_state_ops":n,"universe_paths":universe.len()})
}


// ------------------------------------------------------------------------------------------------
// spec -> code replay: an EmbeddedFS over EVERY file list TLC enumerated (MC_Embedded_r)
thread_local! {
    static DYN_FILES: std::cell::RefCell<Vec<(String, Vec<u8>)>> = std::cell::RefCell::new(vec![]);
}
/// a RustEmbed implementation whose "folder" is the thread's current file list
#[derive(Debug)]
pub struct DynFolder;
#[cfg(debug_assertions)]
impl RustEmbed for DynFolder {
    fn get(file_path: &str) -> Option<rust_embed::EmbeddedFile> {
        DYN_FILES.with(|f| {
            f.borrow().iter().find(|(p, _)| p == file_path).map(|(_, d)| rust_embed::EmbeddedFile {
                data: std::borrow::Cow::Owned(d.clone()),
                metadata: rust_embed::Metadata::__rust_embed_new([0u8; 32], None, None),
            })
        })
    }
    fn iter() -> rust_embed::Filenames {
        let names: Vec<std::borrow::Cow<'static, str>> = DYN_FILES.with(|f| f.borrow().iter().map(|(p, _)| std::borrow::Cow::Owned(p.clone())).collect());
        rust_embed::Filenames::Dynamic(Box::new(names.into_iter()))
    }
}

#[cfg(debug_assertions)]
pub fn run_dyn(cases_file: &str, names: &str, out_dir: &Path) -> Value {
    use std::io::Write;
    let cx = Conc::new(names, 1);
    let txt = std::fs::read_to_string(cases_file).expect("cases file");
    let universe: Vec<Vec<String>> = ["a", "b", "c", "a/a", "a/b", "b/a", "a/a/a", "a/a/b", "a/b/a", "d", "a/c", "c/a", "a/a/a/a", "b/a/a"].iter().map(|s| pv(s)).collect();
    let mut out = TraceOut::new(out_dir, "embdyn");
    let mut n = 0u64;
    let mut cases = 0u64;
    for (ci, line) in txt.lines().filter(|l| l.starts_with("<<\"CASE\"")).enumerate() {
        let start = line.find(", \"").unwrap() + 2;
        let end = line.rfind('"').unwrap();
        let s: String = serde_json::from_str(&line[start..=end]).unwrap();
        let v: Value = serde_json::from_str(&s).unwrap();
        let files: Vec<Vec<String>> = v["files"].as_array().unwrap().iter().map(|p| p.as_array().unwrap().iter().map(|x| x.as_str().unwrap().to_string()).collect()).collect();
        // contents: pattern symbols derived from the position in the list (empty, one, two symbols; non-UTF-8 included)
        let content = |i: usize| -> Vec<i64> { [vec![], vec![1], vec![2, 1], vec![3]][i % 4].clone() };
        // ground truth: the same files on a MemoryFS (parents created as needed)
        let mem: VfsPath = MemoryFS::new().into();
        let mut dynfiles = vec![];
        for (i, f) in files.iter().enumerate() {
            let bytes = crate::names::conc_bytes(&content(i + ci), 1);
            let p = cx.path(&mem, f);
            p.parent().create_dir_all().unwrap();
            p.create_file().unwrap().write_all(&bytes).unwrap();
            dynfiles.push((cx.names.conc_path(f), bytes));
        }
        DYN_FILES.with(|d| *d.borrow_mut() = dynfiles);
        let emb: VfsPath = match guard(|| EmbeddedFS::<DynFolder>::new()) {
            Ok(fs) => fs.into(),
            Err(()) => {
                out.begin(&json!({"ev":"init","cfg":"emb","kind":"emb","sup":[],"ro":true,"names":names,"b":1,"universe":universe,
                    "obs":observe(&mem, &universe, &cx, 0),"popfail":["EmbeddedFS::new -> panic"]}));
                continue;
            }
        };
        let truth = observe(&mem, &universe, &cx, ci);
        let obs = observe(&emb, &universe, &cx, ci + 1);
        out.begin(&json!({"ev":"init","cfg":"emb","kind":"emb","sup":[],"ro":true,"names":names,"b":1,"universe":universe,"obs":obs,"truth":truth}));
        cases += 1;
        // a rotating sample of mutators: all refused, nothing changes
        let ops = ["create_dir", "create_file", "append_file", "remove_file", "remove_dir", "create_dir_all", "remove_dir_all", "set_time", "copy_file", "move_file", "copy_dir", "move_dir"];
        for k in 0..6 {
            let op = ops[(ci + 2 * k) % ops.len()];
            let p = universe[(ci * 7 + k * 3) % universe.len()].clone();
            let q = if ["copy_file", "move_file", "copy_dir", "move_dir"].contains(&op) { universe[(ci * 5 + k + 9) % universe.len()].clone() } else { vec![] };
            if !q.is_empty() && (q.len() >= p.len() && q[..p.len()] == p[..]) {
                continue;
            }
            let o = Op { op: op.to_string(), p: p.clone(), q, c: if op == "create_file" || op == "append_file" { vec![1] } else { vec![] }, f: if op == "set_time" { "mo".into() } else { String::new() }, tick: 2 };
            let pre_p = md_json(&cx, guard(|| cx.path(&emb, &o.p).metadata()));
            let res = exec(&emb, &emb, &o, &cx);
            let post = md_json(&cx, guard(|| cx.path(&emb, &o.p).metadata()));
            let obs = observe(&emb, &universe, &cx, n as usize);
            let mut e = o.to_json();
            e["ev"] = json!("call");
            e["res"] = res.to_json();
            e["pre"] = json!({"p":pre_p,"q":{"c":"skip"}});
            e["post"] = post;
            e["obs"] = obs;
            out.put(&e);
            n += 1;
        }
    }
    out.finish();
    json!({"cfg":"embdyn","mode":"embedded file lists enumerated by TLC","names":names,"b":1,"events":out.total_events,"segments":out.segments,"edges_run":n,"distinct_state_ops":cases})
}
