//! Loads the labelled transition system TLC emitted for an MC_* instance of Level A and walks it on
//! the real code (spec -> code): edge cover, all short paths, random long walks.  The fast path only
//! compares records for equality with what TLC printed; every event is also written to a trace
//! that TLC judges (Trace_Tree).
use crate::cfg::parse;
use crate::exec::*;
use crate::obs::snap_of;
use crate::session::*;
use rand::rngs::StdRng;
use rand::seq::SliceRandom;
use rand::{Rng, SeedableRng};
use serde_json::{json, Value};
use std::collections::HashMap;
use std::io::{BufRead, BufWriter, Write};
use std::path::{Path, PathBuf};
use std::sync::atomic::{AtomicU64, Ordering};
use std::sync::Arc;

pub struct Edge {
    pub op: Op,
    pub allowed: Vec<String>,
    pub regime: String,
    pub val: i64,
    pub to: usize,
}
pub struct Lts {
    pub universe: Vec<Vec<String>>,
    pub states: Vec<Snap>,
    pub index: HashMap<Snap, usize>,
    pub edges: Vec<Vec<Edge>>,
    pub nedges: usize,
}

fn inner_json(line: &str) -> Option<(String, Value)> {
    // <<"TAG", "....">>
    if !line.starts_with("<<\"") {
        return None;
    }
    let tag_end = line[3..].find('"')? + 3;
    let tag = line[3..tag_end].to_string();
    let start = line[tag_end + 1..].find('"')? + tag_end + 1;
    let end = line.rfind('"')?;
    let s: String = serde_json::from_str(&line[start..=end]).ok()?;
    Some((tag, serde_json::from_str(&s).ok()?))
}
fn snap_from(v: &Value) -> Snap {
    v.as_array().unwrap().iter().map(|n| n.as_array().unwrap().iter().map(|x| x.as_i64().unwrap()).collect()).collect()
}

impl Lts {
    pub fn load(path: &Path) -> Lts {
        let f = std::io::BufReader::new(std::fs::File::open(path).expect("lts file"));
        let mut universe = vec![];
        let mut states: Vec<Snap> = vec![];
        let mut index: HashMap<Snap, usize> = HashMap::new();
        let mut raw_edges: Vec<(Snap, Value, Snap)> = vec![];
        for line in f.lines() {
            let line = line.unwrap();
            if let Some((tag, v)) = inner_json(&line) {
                match tag.as_str() {
                    "UNIVERSE" => {
                        universe = v.as_array().unwrap().iter().map(|p| p.as_array().unwrap().iter().map(|s| s.as_str().unwrap().to_string()).collect()).collect()
                    }
                    "STATE" => {
                        let s = snap_from(&v);
                        if !index.contains_key(&s) {
                            index.insert(s.clone(), states.len());
                            states.push(s);
                        }
                    }
                    "EDGE" => {
                        let from = snap_from(&v["from"]);
                        let to = snap_from(&v["to"]);
                        raw_edges.push((from, v, to));
                    }
                    _ => {}
                }
            }
        }
        let mut edges: Vec<Vec<Edge>> = (0..states.len()).map(|_| vec![]).collect();
        let nedges = raw_edges.len();
        for (from, v, to) in raw_edges {
            let fi = index[&from];
            let ti = *index.get(&to).expect("edge to unknown state");
            edges[fi].push(Edge {
                op: Op::from_json(&v),
                allowed: v["allowed"].as_array().unwrap().iter().map(|s| s.as_str().unwrap().to_string()).collect(),
                regime: v["regime"].as_str().unwrap().to_string(),
                val: v["val"].as_i64().unwrap(),
                to: ti,
            });
        }
        Lts { universe, states, index, edges, nedges }
    }
}

pub struct TraceOut {
    dir: PathBuf,
    stem: String,
    n: usize,
    events_in_file: usize,
    w: Option<BufWriter<std::fs::File>>,
    pub per_file: usize,
    pub total_events: u64,
    pub segments: u64,
}
impl TraceOut {
    pub fn new(dir: &Path, stem: &str) -> TraceOut {
        std::fs::create_dir_all(dir).unwrap();
        TraceOut { dir: dir.to_path_buf(), stem: stem.to_string(), n: 0, events_in_file: 0, w: None, per_file: 3000, total_events: 0, segments: 0 }
    }
    /// start a new segment with its init event (rotates files only at segment boundaries)
    pub fn begin(&mut self, init: &Value) {
        if self.w.is_none() || self.events_in_file >= self.per_file {
            self.n += 1;
            let p = self.dir.join(format!("{}-{:04}.ndjson", self.stem, self.n));
            self.w = Some(BufWriter::new(std::fs::File::create(p).unwrap()));
            self.events_in_file = 0;
        }
        self.segments += 1;
        self.put(init);
    }
    pub fn put(&mut self, e: &Value) {
        let w = self.w.as_mut().unwrap();
        serde_json::to_writer(&mut *w, e).unwrap();
        w.write_all(b"\n").unwrap();
        self.events_in_file += 1;
        self.total_events += 1;
    }
    pub fn finish(&mut self) {
        if let Some(w) = self.w.as_mut() {
            w.flush().unwrap();
        }
    }
}

pub struct WalkOpts {
    pub cfg: String,
    pub names: String,
    pub b: usize,
    pub mode: String,
    pub frac: f64,
    pub seed: u64,
    pub out: PathBuf,
    pub threads: usize,
    pub walks: usize,
    pub len: usize,
    pub light: bool,
    pub split: bool, // overlay: distribute the constructed state over the layers
    pub lower_only: bool,
    pub ops: Vec<String>, // random mode: restrict the walk to these operations (empty = all) // overlay: put the whole constructed state into the lower layers (upper starts empty)
    pub max_events: u64,
}

fn slug(s: &str) -> String {
    s.chars().map(|c| if c.is_ascii_alphanumeric() { c } else { '_' }).collect()
}

/// for a top-level overlay: distribute state `s` over `n` layers (index 0 = upper) so that the
/// union is `s`: every entry goes to one random layer (with its ancestors as directories), directories
/// may additionally exist in other layers, and files in a lower layer may be shadowed by the upper
/// copy with different bytes.  Pure data shuffling; TLC checks Merge(layers) = observation at init.
fn split_state(lts: &Lts, s: &Snap, n: usize, rng: &mut StdRng, lower_only: bool) -> (Vec<Option<Snap>>, Vec<Vec<String>>) {
    let u = &lts.universe;
    let absent = vec![0i64];
    let mut layers: Vec<Snap> = (0..n).map(|_| vec![absent.clone(); u.len()]).collect();
    let idx: HashMap<&Vec<String>, usize> = u.iter().enumerate().map(|(i, p)| (p, i)).collect();
    let ensure_parents = |layer: &mut Snap, p: &Vec<String>| {
        for k in 1..p.len() {
            let anc = p[..k].to_vec();
            layer[idx[&anc]] = vec![1];
        }
    };
    for (i, p) in u.iter().enumerate() {
        if s[i][0] == 0 {
            continue;
        }
        let home = if lower_only && n > 1 { rng.gen_range(1..n) } else { rng.gen_range(0..n) };
        // a lower-layer ancestor must not be shadowed by an upper FILE: ancestors of a present entry are
        // directories of s in every layer where we put them, so the union keeps the type
        ensure_parents(&mut layers[home], p);
        layers[home][i] = s[i].clone();
        if s[i][0] == 1 {
            for l in 0..n {
                if l != home && (!lower_only || l > 0) && rng.gen_bool(0.3) {
                    ensure_parents(&mut layers[l], p);
                    layers[l][i] = vec![1];
                }
            }
        } else if home + 1 < n && rng.gen_bool(0.3) {
            // shadowed lower copy with different bytes
            let l = rng.gen_range(home + 1..n);
            ensure_parents(&mut layers[l], p);
            layers[l][i] = vec![2, 3];
        }
    }
    // second pass: the same path with DIFFERENT TYPES in different layers.  The first layer that has a
    // path decides its type: a lower directory (with a child) below an upper file is not part of the
    // union, and neither is a lower file below an upper directory.
    for (i, p) in u.iter().enumerate() {
        if s[i][0] == 0 || !rng.gen_bool(0.5) {
            continue;
        }
        let first = match (0..n).find(|&l| layers[l][i][0] != 0) {
            Some(f) => f,
            None => continue,
        };
        let cands: Vec<usize> = (first + 1..n)
            .filter(|&l| {
                layers[l][i][0] == 0
                    && (1..p.len()).all(|k| layers[l][idx[&p[..k].to_vec()]][0] != 2)
                    && u.iter().enumerate().all(|(j, q)| !(q.len() > p.len() && q[..p.len()] == p[..]) || layers[l][j][0] == 0)
            })
            .collect();
        if cands.is_empty() {
            continue;
        }
        let l = cands[rng.gen_range(0..cands.len())];
        ensure_parents(&mut layers[l], p);
        if s[i][0] == 1 {
            layers[l][i] = vec![2, 3]; // a file hidden below the directory of the union
        } else {
            layers[l][i] = vec![1]; // a directory hidden below the file of the union ...
            if rng.gen_bool(0.8) {
                // ... with a whole hidden subtree: every descendant the universe has (inner ones as
                // directories, the deepest ones as files), or only a random part of it
                let part = rng.gen_bool(0.3);
                for (j, q) in u.iter().enumerate() {
                    if q.len() > p.len() && q[..p.len()] == p[..] {
                        if part && rng.gen_bool(0.5) {
                            continue;
                        }
                        let inner = u.iter().any(|r| r.len() > q.len() && r[..q.len()] == q[..]);
                        ensure_parents(&mut layers[l], q);
                        layers[l][j] = if inner { vec![1] } else if rng.gen_bool(0.7) { vec![2, 3] } else { vec![1] };
                    }
                }
            }
        }
    }
    // third pass: a write layer that was used before (persisted deletions): paths that are ABSENT from the
    // union although a lower layer holds an entry, because the write layer carries a whiteout marker for
    // them; and stale markers next to an entry of the write layer (the entry wins)
    let mut markers: Vec<Vec<String>> = vec![];
    if n > 1 {
        for (i, p) in u.iter().enumerate() {
            let parent_is_dir = p.len() == 1 || s[idx[&p[..p.len() - 1].to_vec()]][0] == 1;
            let below_marked = markers.iter().any(|m| m.len() < p.len() && p[..m.len()] == m[..]);
            if s[i][0] == 0 && parent_is_dir && !below_marked && rng.gen_bool(0.2) {
                // nothing of the union lives below an absent path, so the subtree is free in every layer
                if layers.iter().any(|l| u.iter().enumerate().any(|(j, q)| q.len() >= p.len() && q[..p.len()] == p[..] && l[j][0] != 0)) {
                    continue;
                }
                let l = rng.gen_range(1..n);
                if (1..p.len()).any(|k| layers[l][idx[&p[..k].to_vec()]][0] == 2) {
                    continue;
                }
                ensure_parents(&mut layers[l], p);
                let has_kids = u.iter().any(|q| q.len() > p.len() && q[..p.len()] == p[..]);
                let mark_all = rng.gen_bool(0.5);
                markers.push(p.clone());
                if has_kids && rng.gen_bool(0.6) {
                    layers[l][i] = vec![1];
                    for (j, q) in u.iter().enumerate() {
                        if q.len() > p.len() && q[..p.len()] == p[..] && rng.gen_bool(0.7) {
                            let inner = u.iter().any(|r| r.len() > q.len() && r[..q.len()] == q[..]);
                            ensure_parents(&mut layers[l], q);
                            layers[l][j] = if inner { vec![1] } else { vec![2, 3] };
                            if mark_all {
                                markers.push(q.clone());
                            }
                        }
                    }
                } else {
                    layers[l][i] = vec![2, 3];
                }
            } else if s[i][0] != 0 && layers[0][i][0] != 0 && rng.gen_bool(0.08) {
                markers.push(p.clone()); // stale marker: the write layer's own entry is newer
            }
        }
    }
    (layers.into_iter().map(Some).collect(), markers)
}

struct Stats {
    distinct: std::sync::Mutex<std::collections::HashSet<(usize, String)>>,
    edges_run: AtomicU64,
    fast_disagree: AtomicU64,
    builds: AtomicU64,
}

/// a sync session or its async twin (cfg "async:<term>")
pub enum AnySession {
    S(Session),
    A(crate::aworld::ASession),
}
impl AnySession {
    pub fn init_event(&mut self) -> Value {
        match self {
            AnySession::S(s) => s.init_event(),
            AnySession::A(a) => a.init_event(),
        }
    }
    pub fn step(&mut self, op: &Op) -> Value {
        match self {
            AnySession::S(s) => s.step(op),
            AnySession::A(a) => a.step(op),
        }
    }
}
pub fn new_any_session(lts: &Lts, o: &WalkOpts, s: &Snap, rng: &mut StdRng) -> AnySession {
    if let Some(cfg) = o.cfg.strip_prefix("async:") {
        let mut a = crate::aworld::ASession::new(cfg, &o.names, o.b, &lts.universe);
        let nl = a.w.layers.len();
        if nl > 1 && o.split {
            let (parts, markers) = split_state(lts, s, nl, rng, o.lower_only);
            a.populate_layers(&parts, &markers);
        } else {
            a.populate_state(s);
        }
        AnySession::A(a)
    } else {
        AnySession::S(new_session(lts, o, s, rng))
    }
}

pub fn new_session(lts: &Lts, o: &WalkOpts, s: &Snap, rng: &mut StdRng) -> Session {
    // "lock(<cfgA>|<cfgB>)": run cfgA with cfgB as its lock-step partner
    let (cfg_a, cfg_b) = match o.cfg.strip_prefix("lock(").and_then(|x| x.strip_suffix(')')).and_then(|x| x.split_once('|')) {
        Some((a, b)) => (a.to_string(), Some(b.to_string())),
        None => (o.cfg.clone(), None),
    };
    let mut sess = Session::new(&cfg_a, &o.names, o.b, &lts.universe);
    if let Some(b) = cfg_b {
        let mut other = Session::new(&b, &o.names, o.b, &lts.universe);
        other.light = true;
        sess.other = Some(Box::new(other));
    }
    sess.light = o.light;
    let nl = sess.w.layers.len();
    if nl > 1 && o.split {
        let (parts, markers) = split_state(lts, s, nl, rng, o.lower_only);
        sess.populate_layers(&parts);
        sess.populate_markers(&markers);
    } else {
        sess.populate_state(s);
    }
    sess
}

fn expected_ok(e: &Edge, sup: &[&str]) -> (Vec<String>, bool) {
    // class sets are as TLC printed them, except that setter support is per-configuration data
    if e.op.op == "set_time" && !sup.contains(&e.op.f.as_str()) {
        return (vec!["not_supported".into()], true);
    }
    (e.allowed.clone(), true)
}

/// returns true when the step agrees with the LTS edge (class allowed, and for regime spec the snapshot equals `to`)
fn fast_check(lts: &Lts, e: &Edge, ev: &Value, sup: &[&str]) -> (bool, Option<usize>) {
    let cls = ev["res"]["c"].as_str().unwrap();
    let (allowed, _) = expected_ok(e, sup);
    let snap = snap_of(&ev["obs"]);
    let now = lts.index.get(&snap).copied();
    let class_ok = allowed.iter().any(|a| a == cls);
    if e.regime == "spec" {
        let val_ok = cls != "ok" || e.op.op != "copy_dir" || ev["res"]["val"].as_i64() == Some(e.val);
        (class_ok && now == Some(e.to) && val_ok, now)
    } else {
        (class_ok && now.is_some(), now)
    }
}

pub fn run_walk(lts: Arc<Lts>, o: Arc<WalkOpts>) -> Value {
    let stats = Arc::new(Stats { distinct: Default::default(), edges_run: AtomicU64::new(0), fast_disagree: AtomicU64::new(0), builds: AtomicU64::new(0) });
    let sup: Vec<&'static str> = match o.cfg.strip_prefix("async:") {
        Some(c) => crate::aworld::asup(&parse(c)),
        None => match o.cfg.strip_prefix("lock(").and_then(|x| x.split_once('|')) {
            Some((a, _)) => parse(a).sup(),
            None => parse(&o.cfg).sup(),
        },
    };
    let mut handles = vec![];
    for t in 0..o.threads {
        let lts = lts.clone();
        let o = o.clone();
        let stats = stats.clone();
        let sup = sup.clone();
        handles.push(std::thread::spawn(move || {
            let mut rng = StdRng::seed_from_u64(o.seed.wrapping_mul(1_000_003).wrapping_add(t as u64));
            let stem = format!("{}-{}-{}-{}-t{}", slug(&o.cfg), o.names, o.b, o.mode, t);
            let mut out = TraceOut::new(&o.out, &stem);
            let mut fast: Vec<Value> = vec![];
            match o.mode.as_str() {
                "edges" => {
                    // deterministic sample of states (seeded), partitioned over threads
                    let mut sel = StdRng::seed_from_u64(o.seed);
                    let chosen: Vec<usize> = (0..lts.states.len()).filter(|_| sel.gen_bool(o.frac.min(1.0))).collect();
                    for (k, &si) in chosen.iter().enumerate() {
                        if k % o.threads != t {
                            continue;
                        }
                        if out.total_events > o.max_events {
                            break;
                        }
                        let s = &lts.states[si];
                        // (1) edges that leave the state unchanged according to the model, back to back
                        let mut sess: Option<AnySession> = None;
                        // (layer placement is part of an overlay's state: a copy-up made by one edge would hide the
                        // "served from a lower layer" situation from the next, so lower-only runs build every edge afresh)
                        let fresh_each = o.lower_only;
                        for e in lts.edges[si].iter().filter(|e| o.ops.is_empty() || o.ops.contains(&e.op.op)) {
                            if e.to == si && !fresh_each {
                                if sess.is_none() {
                                    let mut ns = new_any_session(&lts, &o, s, &mut rng);
                                    stats.builds.fetch_add(1, Ordering::Relaxed);
                                    let init = ns.init_event();
                                    let ok = snap_of(&init["obs"]) == *s;
                                    out.begin(&init);
                                    if !ok {
                                        fast.push(json!({"kind":"init","state":s,"cfg":o.cfg}));
                                        stats.fast_disagree.fetch_add(1, Ordering::Relaxed);
                                        break;
                                    }
                                    sess = Some(ns);
                                }
                                let ev = sess.as_mut().unwrap().step(&e.op);
                                out.put(&ev);
                                stats.edges_run.fetch_add(1, Ordering::Relaxed);
                                stats.distinct.lock().unwrap().insert((si, format!("{}{:?}{:?}{:?}{}", e.op.op, e.op.p, e.op.q, e.op.c, e.op.f)));
                                let (ok, now) = fast_check(&lts, e, &ev, &sup);
                                if !ok {
                                    fast.push(json!({"kind":"edge","state":s,"op":e.op.to_json(),"got":ev["res"]["c"],"allowed":e.allowed}));
                                    stats.fast_disagree.fetch_add(1, Ordering::Relaxed);
                                    sess = None; // tainted: rebuild for the next edge
                                } else if now != Some(si) {
                                    sess = None; // an invariant-only edge legitimately moved the state
                                }
                            }
                        }
                        // (2) edges that change the state: fresh construction for each
                        for e in lts.edges[si].iter().filter(|e| o.ops.is_empty() || o.ops.contains(&e.op.op)) {
                            if e.to != si || fresh_each {
                                let mut ns = new_any_session(&lts, &o, s, &mut rng);
                                stats.builds.fetch_add(1, Ordering::Relaxed);
                                let init = ns.init_event();
                                let ok = snap_of(&init["obs"]) == *s;
                                out.begin(&init);
                                if !ok {
                                    fast.push(json!({"kind":"init","state":s,"cfg":o.cfg}));
                                    stats.fast_disagree.fetch_add(1, Ordering::Relaxed);
                                    continue;
                                }
                                let ev = ns.step(&e.op);
                                out.put(&ev);
                                stats.edges_run.fetch_add(1, Ordering::Relaxed);
                                stats.distinct.lock().unwrap().insert((si, format!("{}{:?}{:?}{:?}{}", e.op.op, e.op.p, e.op.q, e.op.c, e.op.f)));
                                let (ok, _) = fast_check(&lts, e, &ev, &sup);
                                if !ok {
                                    fast.push(json!({"kind":"edge","state":s,"op":e.op.to_json(),"got":ev["res"]["c"],"allowed":e.allowed}));
                                    stats.fast_disagree.fetch_add(1, Ordering::Relaxed);
                                }
                            }
                        }
                    }
                }
                "paths" => {
                    // all operation sequences of length <= len from the initial (empty) state
                    let s0 = lts.index[&lts.states[0]];
                    let mut stack: Vec<Vec<usize>> = vec![vec![]];
                    let mut count = 0usize;
                    while let Some(path) = stack.pop() {
                        // enumerate children
                        let mut cur = s0;
                        for &ei in &path {
                            cur = lts.edges[cur][ei].to;
                        }
                        if path.len() < o.len {
                            for ei in 0..lts.edges[cur].len() {
                                let mut np = path.clone();
                                np.push(ei);
                                stack.push(np);
                            }
                        }
                        if path.len() == o.len {
                            count += 1;
                            if count % o.threads != t {
                                continue;
                            }
                            if rng.gen_bool(1.0 - o.frac.min(1.0)) {
                                continue;
                            }
                            let mut sess = new_any_session(&lts, &o, &lts.states[s0], &mut rng);
                            out.begin(&sess.init_event());
                            let mut cur = s0;
                            for &ei in &path {
                                let e = &lts.edges[cur][ei];
                                let ev = sess.step(&e.op);
                                out.put(&ev);
                                stats.edges_run.fetch_add(1, Ordering::Relaxed);
                                stats.distinct.lock().unwrap().insert((cur, format!("{}{:?}{:?}{:?}{}", e.op.op, e.op.p, e.op.q, e.op.c, e.op.f)));
                                let (ok, _) = fast_check(&lts, e, &ev, &sup);
                                if !ok {
                                    fast.push(json!({"kind":"path","op":e.op.to_json(),"got":ev["res"]["c"],"allowed":e.allowed}));
                                    stats.fast_disagree.fetch_add(1, Ordering::Relaxed);
                                    break;
                                }
                                cur = e.to;
                            }
                        }
                    }
                }
                "random" => {
                    for wi in 0..o.walks {
                        if wi % o.threads != t {
                            continue;
                        }
                        // start state: empty, or (overlay, split) a random state distributed over the layers
                        let si = if o.split && rng.gen_bool(0.7) { rng.gen_range(0..lts.states.len()) } else { lts.index[&lts.states[0]] };
                        let s = lts.states[si].clone();
                        let mut sess = new_any_session(&lts, &o, &s, &mut rng);
                        let init = sess.init_event();
                        let ok = snap_of(&init["obs"]) == s;
                        out.begin(&init);
                        if !ok {
                            fast.push(json!({"kind":"init","state":s,"cfg":o.cfg}));
                            stats.fast_disagree.fetch_add(1, Ordering::Relaxed);
                            continue;
                        }
                        let mut cur = si;
                        for _ in 0..o.len {
                            let es: Vec<&Edge> = lts.edges[cur].iter().filter(|e| o.ops.is_empty() || o.ops.contains(&e.op.op)).collect();
                            // prefer state-changing edges half of the time (with an operation filter: successful ones)
                            let changing: Vec<&Edge> = es.iter().copied().filter(|e| e.to != cur || (!o.ops.is_empty() && e.allowed.len() == 1 && e.allowed[0] == "ok")).collect();
                            let e: &Edge = if !changing.is_empty() && rng.gen_bool(0.6) { changing.choose(&mut rng).unwrap() } else { es.choose(&mut rng).unwrap() };
                            let ev = sess.step(&e.op);
                            out.put(&ev);
                            stats.edges_run.fetch_add(1, Ordering::Relaxed);
                            stats.distinct.lock().unwrap().insert((cur, format!("{}{:?}{:?}{:?}{}", e.op.op, e.op.p, e.op.q, e.op.c, e.op.f)));
                            let (ok, now) = fast_check(&lts, e, &ev, &sup);
                            if !ok {
                                fast.push(json!({"kind":"walk","op":e.op.to_json(),"got":ev["res"]["c"],"allowed":e.allowed}));
                                stats.fast_disagree.fetch_add(1, Ordering::Relaxed);
                                break;
                            }
                            cur = if e.regime == "spec" { e.to } else { now.unwrap() };
                        }
                    }
                }
                "cycles" => {
                    // C10 bias: remove something that lives in a lower layer (file / empty directory / whole subtree),
                    // do unrelated things, re-create it (possibly with another type), three cycles per walk
                    for wi in 0..o.walks {
                        if wi % o.threads != t {
                            continue;
                        }
                        let nonempty: Vec<usize> = (0..lts.states.len()).filter(|&i| lts.states[i].iter().any(|n| n[0] != 0)).collect();
                        let si = *nonempty.choose(&mut rng).unwrap();
                        let s = lts.states[si].clone();
                        let mut sess = new_any_session(&lts, &o, &s, &mut rng);
                        let init = sess.init_event();
                        let ok = snap_of(&init["obs"]) == s;
                        out.begin(&init);
                        if !ok {
                            fast.push(json!({"kind":"init","state":s,"cfg":o.cfg}));
                            stats.fast_disagree.fetch_add(1, Ordering::Relaxed);
                            continue;
                        }
                        let mut cur = si;
                        let mut alive = true;
                        // run one edge selected by (op, p[, c]); returns false when the walk must stop
                        let mut run = |cur: &mut usize, sess: &mut AnySession, out: &mut TraceOut, fast: &mut Vec<Value>, op: &str, p: &Vec<String>, c: Option<&Vec<i64>>| -> bool {
                            let e = match lts.edges[*cur].iter().find(|e| e.op.op == op && &e.op.p == p && c.map(|c| &e.op.c == c).unwrap_or(true)) {
                                Some(e) => e,
                                None => return true, // not an edge of the bounded model from here (contents bound): skip
                            };
                            let ev = sess.step(&e.op);
                            out.put(&ev);
                            stats.edges_run.fetch_add(1, Ordering::Relaxed);
                            stats.distinct.lock().unwrap().insert((*cur, format!("{}{:?}{:?}{:?}{}", e.op.op, e.op.p, e.op.q, e.op.c, e.op.f)));
                            let (ok, now) = fast_check(&lts, e, &ev, &sup);
                            if !ok {
                                fast.push(json!({"kind":"cycle","op":e.op.to_json(),"got":ev["res"]["c"],"allowed":e.allowed}));
                                stats.fast_disagree.fetch_add(1, Ordering::Relaxed);
                                return false;
                            }
                            *cur = if e.regime == "spec" { e.to } else { now.unwrap() };
                            true
                        };
                        let uni = lts.universe.clone();
                        for _cycle in 0..3 {
                            if !alive {
                                break;
                            }
                            let present: Vec<usize> = (0..uni.len()).filter(|&i| lts.states[cur][i][0] != 0).collect();
                            if present.is_empty() {
                                break;
                            }
                            let pi = *present.choose(&mut rng).unwrap();
                            let p = uni[pi].clone();
                            let isdir = lts.states[cur][pi][0] == 1;
                            // removal
                            if !isdir {
                                alive = run(&mut cur, &mut sess, &mut out, &mut fast, "remove_file", &p, None);
                            } else if rng.gen_bool(0.5) {
                                alive = run(&mut cur, &mut sess, &mut out, &mut fast, "remove_dir_all", &p, None);
                            } else {
                                // children first (deepest first), then the directory itself
                                let mut kids: Vec<usize> = (0..uni.len()).filter(|&i| uni[i].len() > p.len() && uni[i][..p.len()] == p[..] && lts.states[cur][i][0] != 0).collect();
                                kids.sort_by_key(|&i| std::cmp::Reverse(uni[i].len()));
                                for k in kids {
                                    if !alive {
                                        break;
                                    }
                                    let op = if lts.states[cur][k][0] == 1 { "remove_dir" } else { "remove_file" };
                                    alive = run(&mut cur, &mut sess, &mut out, &mut fast, op, &uni[k], None);
                                }
                                if alive {
                                    alive = run(&mut cur, &mut sess, &mut out, &mut fast, "remove_dir", &p, None);
                                }
                            }
                            // unrelated operations
                            for _ in 0..rng.gen_range(0..4) {
                                if !alive {
                                    break;
                                }
                                let cands: Vec<&Edge> = lts.edges[cur].iter().filter(|e| !(e.op.p.len() >= p.len() && e.op.p[..p.len()] == p[..]) && !(p.len() >= e.op.p.len() && p[..e.op.p.len()] == e.op.p[..]) && !e.op.has_dest()).collect();
                                if let Some(e) = cands.choose(&mut rng) {
                                    let (op, pp, c) = (e.op.op.clone(), e.op.p.clone(), e.op.c.clone());
                                    alive = run(&mut cur, &mut sess, &mut out, &mut fast, &op, &pp, Some(&c));
                                }
                            }
                            // re-creation, possibly with another type, then populate below it
                            if alive {
                                let choice = rng.gen_range(0..3);
                                if choice == 0 {
                                    let c: Vec<i64> = if rng.gen_bool(0.5) { vec![1] } else { vec![] };
                                    alive = run(&mut cur, &mut sess, &mut out, &mut fast, "create_file", &p, Some(&c));
                                } else {
                                    let op = if choice == 1 { "create_dir" } else { "create_dir_all" };
                                    alive = run(&mut cur, &mut sess, &mut out, &mut fast, op, &p, None);
                                    let kids: Vec<usize> = (0..uni.len()).filter(|&i| uni[i].len() == p.len() + 1 && uni[i][..p.len()] == p[..]).collect();
                                    for k in kids {
                                        if alive && rng.gen_bool(0.5) {
                                            if rng.gen_bool(0.5) {
                                                alive = run(&mut cur, &mut sess, &mut out, &mut fast, "create_dir", &uni[k], None);
                                            } else {
                                                alive = run(&mut cur, &mut sess, &mut out, &mut fast, "create_file", &uni[k], Some(&vec![1]));
                                            }
                                        }
                                    }
                                }
                            }
                        }
                    }
                }
                m => panic!("unknown walk mode {m}"),
            }
            out.finish();
            (out.total_events, out.segments, fast)
        }));
    }
    let mut events = 0;
    let mut segments = 0;
    let mut fast_all = vec![];
    for h in handles {
        let (e, s, f) = h.join().expect("walker thread");
        events += e;
        segments += s;
        fast_all.extend(f);
    }
    json!({"cfg":o.cfg,"mode":o.mode,"names":o.names,"b":o.b,"events":events,"segments":segments,
           "edges_run":stats.edges_run.load(Ordering::Relaxed),"builds":stats.builds.load(Ordering::Relaxed),
           "fast_disagreements":stats.fast_disagree.load(Ordering::Relaxed),
           "distinct_state_ops":stats.distinct.lock().unwrap().len(),
           "fast_samples": fast_all.into_iter().take(20).collect::<Vec<_>>()})
}
