//! `replay`: re-executes one recorded segment (Level-A tree traces) on a fresh world and writes a
//! trace that TLC judges again; used by `check --replay` and as the flakiness filter.
use crate::exec::Op;
use crate::lts::TraceOut;
use crate::names::conc_bytes;
use crate::session::*;
use serde_json::{json, Value};
use std::io::Write;
use std::path::Path;

fn pathv(v: &Value) -> Vec<String> {
    v.as_array().map(|a| a.iter().map(|x| x.as_str().unwrap_or("").to_string()).collect()).unwrap_or_default()
}

pub fn run(spec: &Value, out_dir: &Path) -> Value {
    let cfg = spec["cfg"].as_str().expect("cfg");
    let names = spec["names"].as_str().unwrap_or("ascii");
    let b = spec["b"].as_u64().unwrap_or(1) as usize;
    let universe: Vec<Vec<String>> = spec["universe"].as_array().expect("universe").iter().map(pathv).collect();
    let mut sess = Session::new(cfg, names, b, &universe);
    // initial content: per layer (overlay) from the recorded raw layer snapshots, else through the root
    if let Some(layers) = spec["init_layers"].as_array() {
        for (l, ents) in sess.w.layers.iter().zip(layers.iter()) {
            let mut es: Vec<&Value> = ents.as_array().unwrap().iter().collect();
            es.sort_by_key(|e| e["p"].as_array().unwrap().len());
            for e in es {
                let p = pathv(&e["p"]);
                if p.iter().any(|c| c.starts_with('!')) {
                    continue;
                }
                let q = sess.cx.path(&l.root, &p);
                if e["k"] == "dir" {
                    let _ = q.create_dir();
                } else if e["k"] == "file" {
                    let d: Vec<i64> = e["d"].as_array().unwrap().iter().map(|x| x.as_i64().unwrap()).collect();
                    if let Ok(mut h) = q.create_file() {
                        let _ = h.write_all(&conc_bytes(&d, b));
                    }
                }
            }
        }
        // whiteout markers of the write layer at the start of the segment
        if let Some(wo) = spec["init_wo"].as_array() {
            let markers: Vec<Vec<String>> = wo.iter().map(pathv).filter(|p| !p.iter().any(|c| c.starts_with('!'))).collect();
            sess.populate_markers(&markers);
        }
    } else if let Some(tree) = spec["init_tree"].as_array() {
        let snap: Snap = tree
            .iter()
            .map(|e| match e[1].as_str().unwrap_or("none") {
                "dir" => vec![1],
                "file" => {
                    let mut v = vec![2];
                    v.extend(e[2].as_array().unwrap().iter().map(|x| x.as_i64().unwrap()));
                    v
                }
                _ => vec![0],
            })
            .collect();
        sess.populate_state(&snap);
    }
    let mut out = TraceOut::new(out_dir, "replay");
    out.begin(&sess.init_event());
    let mut steps = vec![];
    for o in spec["ops"].as_array().expect("ops") {
        let op = Op::from_json(o);
        let ev = sess.step(&op);
        steps.push(json!({"op":op.op,"p":op.p,"q":op.q,"c":op.c,"f":op.f,"res":ev["res"],
            "present_after": ev["obs"]["ents"].as_array().unwrap().iter().filter(|e| e["md"]["c"] == "ok").map(|e| json!([e["p"], e["md"]["k"], e["rd"]["v"]])).collect::<Vec<_>>()}));
        out.put(&ev);
    }
    out.finish();
    json!({"events":out.total_events,"segments":1,"steps":steps})
}
