//! The observer: projects the real filesystem onto the observation record of spec/VfsObs.tla by calling
//! every public observer on every path of the universe (and the root).  No filesystem semantics here:
//! it calls, classifies outcomes and records.
use crate::names::*;
use serde_json::{json, Value};
use std::io::Read;
use std::panic::{catch_unwind, AssertUnwindSafe};
use vfs::error::VfsErrorKind;
use vfs::*;

pub fn class_of(e: &VfsError) -> &'static str {
    match e.kind() {
        VfsErrorKind::FileNotFound => "notfound",
        VfsErrorKind::FileExists => "file_exists",
        VfsErrorKind::DirectoryExists => "dir_exists",
        VfsErrorKind::NotSupported => "not_supported",
        VfsErrorKind::InvalidPath => "invalid_path",
        _ => "err",
    }
}

/// concretisation context of one run
#[derive(Clone)]
pub struct Conc {
    pub names: NameMap,
    pub b: usize,
    /// abstract prefix under which the observed namespace lives (used when observing the twin P/q view)
    pub prefix: Vec<String>,
}
impl Conc {
    pub fn new(names: &str, b: usize) -> Conc {
        Conc { names: NameMap::new(names), b, prefix: vec![] }
    }
    pub fn path(&self, root: &VfsPath, p: &[String]) -> VfsPath {
        let mut full = self.prefix.clone();
        full.extend_from_slice(p);
        if full.is_empty() {
            root.clone()
        } else {
            root.join(self.names.conc_path(&full)).expect("join of a generated path")
        }
    }
    /// error path string -> abstract path relative to the observed namespace, or a token
    pub fn ep(&self, s: &str) -> Value {
        if s == "PATH NOT FILLED BY VFS LAYER" {
            return json!(["!placeholder"]);
        }
        match self.names.abs_path(s) {
            None => json!([format!("!raw:{s}")]),
            Some(p) => {
                if p.len() >= self.prefix.len() && p[..self.prefix.len()] == self.prefix[..] {
                    json!(p[self.prefix.len()..])
                } else {
                    json!([format!("!outside:{s}")])
                }
            }
        }
    }
    pub fn abs_of_str(&self, s: &str) -> Vec<String> {
        match self.names.abs_path(s) {
            None => vec![format!("!raw:{s}")],
            Some(p) => {
                if p.len() >= self.prefix.len() && p[..self.prefix.len()] == self.prefix[..] {
                    p[self.prefix.len()..].to_vec()
                } else {
                    vec![format!("!outside:{s}")]
                }
            }
        }
    }
    pub fn abs_of(&self, pth: &VfsPath) -> Vec<String> {
        match self.names.abs_path(pth.as_str()) {
            None => vec![format!("!raw:{}", pth.as_str())],
            Some(p) => {
                if p.len() >= self.prefix.len() && p[..self.prefix.len()] == self.prefix[..] {
                    p[self.prefix.len()..].to_vec()
                } else {
                    vec![format!("!outside:{}", pth.as_str())]
                }
            }
        }
    }
}

pub fn guard<T>(f: impl FnOnce() -> T) -> Result<T, ()> {
    catch_unwind(AssertUnwindSafe(f)).map_err(|_| ())
}

fn read_all(h: &mut dyn Read, chunk: usize) -> std::io::Result<Vec<u8>> {
    let mut out = vec![];
    if chunk == 0 {
        h.read_to_end(&mut out)?;
        return Ok(out);
    }
    let mut buf = vec![0u8; chunk];
    loop {
        let n = h.read(&mut buf)?;
        if n == 0 {
            break;
        }
        out.extend_from_slice(&buf[..n]);
    }
    Ok(out)
}

const CHUNKS: [usize; 7] = [0, 1, 2, 7, 8191, 8192, 8193];

pub fn md_json(cx: &Conc, r: Result<VfsResult<VfsMetadata>, ()>) -> Value {
    match r {
        Err(()) => json!({"c":"panic","k":"none","len":0,"cr":"none","mo":"none","ac":"none","ep":["-"]}),
        Ok(Err(e)) => json!({"c":class_of(&e),"k":"none","len":0,"cr":"none","mo":"none","ac":"none","ep":cx.ep(e.path())}),
        Ok(Ok(m)) => json!({"c":"ok","k": if m.file_type == VfsFileType::Directory {"dir"} else {"file"},
            "len": abs_len(m.len, cx.b), "cr": time_str(m.created), "mo": time_str(m.modified), "ac": time_str(m.accessed), "ep":["-"]}),
    }
}
fn bool_json(r: Result<VfsResult<bool>, ()>) -> Value {
    match r {
        Err(()) => json!({"c":"panic","v":false}),
        Ok(Err(e)) => json!({"c":class_of(&e),"v":false}),
        Ok(Ok(b)) => json!({"c":"ok","v":b}),
    }
}

/// full observation of the namespace below `root` (shifted by cx.prefix) over `universe`
pub fn observe(root: &VfsPath, universe: &[Vec<String>], cx: &Conc, rot: usize) -> Value {
    let mut ents = vec![];
    let mut all: Vec<Vec<String>> = vec![vec![]];
    all.extend(universe.iter().cloned());
    // phase 1: metadata of everything first (opening a file may legitimately bump its access time)
    let mds: Vec<Value> = all.iter().map(|p| md_json(cx, guard(|| cx.path(root, p).metadata()))).collect();
    for (i, p) in all.iter().enumerate() {
        let q = cx.path(root, p);
        let ex = bool_json(guard(|| q.exists()));
        let isf = bool_json(guard(|| q.is_file()));
        let isd = bool_json(guard(|| q.is_dir()));
        let ls = match guard(|| q.read_dir().map(|it| it.collect::<Vec<_>>())) {
            Err(()) => json!({"c":"panic","v":[],"ep":["-"]}),
            Ok(Err(e)) => json!({"c":class_of(&e),"v":[],"ep":cx.ep(e.path())}),
            Ok(Ok(items)) => {
                let mut names: Vec<String> = items
                    .iter()
                    .map(|it| {
                        let f = it.filename();
                        // listed names must be bare children of the listed directory
                        if it.as_str() != format!("{}/{}", q.as_str(), f) || f.is_empty() {
                            format!("!notbare:{}", it.as_str())
                        } else {
                            cx.names.abs_name(&f)
                        }
                    })
                    .collect();
                names.sort();
                json!({"c":"ok","v":names,"ep":["-"]})
            }
        };
        let chunk = CHUNKS[(rot + i) % CHUNKS.len()];
        let mut bytes: Option<Vec<u8>> = None;
        let (op, rd) = match guard(|| q.open_file()) {
            Err(()) => (json!({"c":"panic","ep":["-"]}), json!({"c":"skip","v":[]})),
            Ok(Err(e)) => (json!({"c":class_of(&e),"ep":cx.ep(e.path())}), json!({"c":"skip","v":[]})),
            Ok(Ok(mut h)) => {
                let rd = match guard(|| read_all(&mut *h, chunk)) {
                    Err(()) => {
                        std::mem::forget(h);
                        json!({"c":"panic","v":[]})
                    }
                    Ok(Err(_)) => json!({"c":"err","v":[]}),
                    Ok(Ok(b)) => {
                        let v = abs_bytes(&b, cx.b);
                        bytes = Some(b);
                        json!({"c":"ok","v":v})
                    }
                };
                (json!({"c":"ok","ep":["-"]}), rd)
            }
        };
        let rts = match guard(|| q.read_to_string()) {
            Err(()) => json!({"c":"panic","same":false,"ep":["-"]}),
            Ok(Err(e)) => json!({"c":class_of(&e),"same":false,"ep":cx.ep(e.path())}),
            Ok(Ok(s)) => json!({"c":"ok","same": bytes.as_deref() == Some(s.as_bytes()),"ep":["-"]}),
        };
        ents.push(json!({"p":p,"ex":ex,"md":mds[i],"isf":isf,"isd":isd,"ls":ls,"op":op,"rd":rd,"rts":rts}));
    }
    let start = cx.path(root, &[]);
    let walk = match guard(|| {
        start.walk_dir().map(|it| {
            let mut v = vec![];
            let mut nerr = 0;
            let mut ep = json!(["-"]);
            for (n, item) in it.enumerate() {
                if n > 10_000 {
                    nerr += 1_000_000; // runaway walk
                    break;
                }
                match item {
                    Ok(p) => v.push(cx.abs_of(&p)),
                    Err(e) => {
                        nerr += 1;
                        ep = cx.ep(e.path());
                    }
                }
            }
            (v, nerr, ep)
        })
    }) {
        Err(()) => json!({"c":"panic","v":[],"nerr":0,"ep":["-"]}),
        Ok(Err(e)) => json!({"c":class_of(&e),"v":[],"nerr":0,"ep":cx.ep(e.path())}),
        Ok(Ok((v, nerr, ep))) => json!({"c":"ok","v":v,"nerr":nerr,"ep":ep}),
    };
    json!({"ents":ents,"walk":walk})
}

/// projection used by the fast path: the observation as an LTS snapshot [[0]|[1]|[2,syms..]] per universe path
pub fn snap_of(obs: &Value) -> Vec<Vec<i64>> {
    obs["ents"].as_array().unwrap()[1..]
        .iter()
        .map(|e| {
            if e["md"]["c"] != "ok" {
                vec![0]
            } else if e["md"]["k"] == "dir" {
                vec![1]
            } else {
                let mut v = vec![2];
                if e["rd"]["c"] == "ok" {
                    v.extend(e["rd"]["v"].as_array().unwrap().iter().map(|x| x.as_i64().unwrap()));
                } else {
                    v.push(-1);
                }
                v
            }
        })
        .collect()
}

/// raw recursive snapshot of a filesystem through its own handle: every entry reachable from `start`
/// by listings, foreign names included.  Metadata first, then contents.
pub fn raw_snapshot(start: &VfsPath, cx: &Conc, with_bytes: bool) -> Value {
    let mut out = vec![];
    let mut stack = vec![start.clone()];
    let mut guard_n = 0;
    while let Some(d) = stack.pop() {
        guard_n += 1;
        if guard_n > 5000 {
            break;
        }
        let kids = match guard(|| d.read_dir().map(|it| it.collect::<Vec<_>>())) {
            Ok(Ok(k)) => k,
            _ => continue,
        };
        for k in kids {
            let md = md_json(cx, guard(|| k.metadata()));
            let isdir = md["k"] == "dir";
            // paths relative to the snapshot's start (a layer may be a sub-path of a larger filesystem)
            let rel = &k.as_str()[start.as_str().len().min(k.as_str().len())..];
            let relp = cx.names.abs_path(rel).unwrap_or_else(|| vec![format!("!raw:{rel}")]);
            let mut ent = json!({"p": relp, "k": md["k"], "len": md["len"], "cr": md["cr"], "mo": md["mo"], "ac": md["ac"], "d": []});
            if !isdir && with_bytes && md["c"] == "ok" {
                if let Ok(Ok(mut h)) = guard(|| k.open_file()) {
                    let mut b = vec![];
                    if h.read_to_end(&mut b).is_ok() {
                        ent["d"] = json!(abs_bytes(&b, cx.b));
                    } else {
                        ent["d"] = json!([-1]);
                    }
                } else {
                    ent["d"] = json!([-1]);
                }
            }
            out.push(ent);
            if isdir {
                stack.push(k);
            }
        }
    }
    out.sort_by(|a, b| a["p"].to_string().cmp(&b["p"].to_string()));
    Value::Array(out)
}
