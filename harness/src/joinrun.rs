//! C06 driver: executes join / parent / filename / extension / root / equality on the sync and the
//! async path types for the cases TLC enumerated (MC_Join) plus seeded random strings and chains,
//! and records what the code returned.  TLC (Trace_Join) computes the expected side.
use crate::obs::guard;
use rand::rngs::StdRng;
use rand::{Rng, SeedableRng};
use serde_json::{json, Value};
use std::collections::HashMap;
use std::io::{BufRead, Write};
use vfs::async_vfs::{AsyncMemoryFS, AsyncVfsPath};
use vfs::error::VfsErrorKind;
use vfs::*;

pub struct Toks {
    fwd: HashMap<String, char>,
    back: HashMap<char, String>,
}
impl Toks {
    pub fn new(variant: usize) -> Toks {
        let letters: [(&str, [char; 3]); 4] = [("a", ['a', 'b', 'x']), ("e", ['é', '日', '🦀']), ("b", ['q', 'Z', '_']), ("u", ['ü', '本', '𝄞'])];
        let mut fwd = HashMap::new();
        let mut back = HashMap::new();
        fwd.insert("/".to_string(), '/');
        fwd.insert(".".to_string(), '.');
        for (t, cs) in letters.iter() {
            fwd.insert(t.to_string(), cs[variant % 3]);
        }
        for (k, v) in fwd.iter() {
            back.insert(*v, k.clone());
        }
        Toks { fwd, back }
    }
    pub fn conc(&self, toks: &[String]) -> String {
        toks.iter().map(|t| self.fwd[t]).collect()
    }
    fn abs_str(&self, s: &str) -> Vec<String> {
        s.chars().map(|c| self.back.get(&c).cloned().unwrap_or_else(|| format!("?{c}"))).collect()
    }
    /// path string -> (well-formed string shape, components)
    pub fn comps(&self, s: &str) -> (bool, Vec<Vec<String>>) {
        if s.is_empty() {
            return (true, vec![]);
        }
        if let Some(rest) = s.strip_prefix('/') {
            (true, rest.split('/').map(|c| self.abs_str(c)).collect())
        } else {
            (false, s.split('/').map(|c| self.abs_str(c)).collect())
        }
    }
}

fn toks_of(v: &Value) -> Vec<String> {
    v.as_array().unwrap().iter().map(|x| x.as_str().unwrap().to_string()).collect()
}
fn base_str(tk: &Toks, base: &Value) -> String {
    base.as_array().unwrap().iter().map(|c| format!("/{}", tk.conc(&toks_of(c)))).collect()
}

macro_rules! record_path {
    ($tk:expr, $res:expr, $arg_s:expr, $root:expr, $other:expr) => {{
        match $res {
            Err(()) => json!({"c":"panic"}),
            Ok(Err(e)) => {
                let c = match e.kind() {
                    VfsErrorKind::InvalidPath => "invalid_path",
                    _ => "err",
                };
                json!({"c":c,"ep_is_arg": *e.path() == $arg_s})
            }
            Ok(Ok(p)) => {
                let s = p.as_str().to_string();
                let (strok, comps) = $tk.comps(&s);
                let par = p.parent();
                let (_, pcomps) = $tk.comps(par.as_str());
                let fname = $tk.abs_str(&p.filename());
                let ext = match p.extension() {
                    None => json!({"some":false,"v":[]}),
                    Some(x) => json!({"some":true,"v":$tk.abs_str(&x)}),
                };
                // equality: same instance + same canonical string <=> equal
                let same = guard(|| $root.join(&s)).ok().and_then(|r| r.ok());
                let eq_same = same.as_ref().map(|q| *q == p && q.as_str() == s).unwrap_or(false);
                let eq_other = guard(|| $other.join(&s)).ok().and_then(|r| r.ok()).map(|q| q == p).unwrap_or(true);
                json!({"c":"ok","path":comps,"strok":strok,"parent":pcomps,"filename":fname,"ext":ext,
                       "is_root":p.is_root(),"root_is_root":p.root().is_root() && p.root() == $root,"eq_same":eq_same,"eq_other":eq_other})
            }
        }
    }};
}

pub struct JoinOut {
    pub events: u64,
}

pub fn run(cases_file: &str, out_dir: &str, seed: u64, random_n: usize, chains_n: usize) -> Value {
    std::fs::create_dir_all(out_dir).unwrap();
    let sroot: VfsPath = MemoryFS::new().into();
    let sother: VfsPath = MemoryFS::new().into();
    let aroot = AsyncVfsPath::new(AsyncMemoryFS::new());
    let aother = AsyncVfsPath::new(AsyncMemoryFS::new());
    let mut n = 0u64;
    let mut shard = 0;
    let mut w: Option<std::io::BufWriter<std::fs::File>> = None;
    let mut put = |e: Value, n: &mut u64| {
        if w.is_none() || *n % 6000 == 0 {
            shard += 1;
            w = Some(std::io::BufWriter::new(std::fs::File::create(format!("{out_dir}/join-{shard:04}.ndjson")).unwrap()));
        }
        let wr = w.as_mut().unwrap();
        serde_json::to_writer(&mut *wr, &e).unwrap();
        wr.write_all(b"\n").unwrap();
        *n += 1;
    };
    let do_join = |tk: &Toks, base: &Value, arg: &[String]| -> Value {
        let bs = base_str(tk, base);
        let arg_s = tk.conc(arg);
        let sb = sroot.join(&bs).expect("canonical base joins");
        let ab = aroot.join(&bs).expect("canonical base joins");
        let rs = guard(|| sb.join(&arg_s));
        let ra = guard(|| ab.join(&arg_s));
        json!({"ev":"join","base":base,"arg":arg,"sync":record_path!(tk, rs, arg_s, sroot, sother),"async":record_path!(tk, ra, arg_s, aroot, aother)})
    };
    // (1) the cases TLC enumerated, each with every token variant rotated by case number
    let mut cases = 0u64;
    if !cases_file.is_empty() {
        let f = std::io::BufReader::new(std::fs::File::open(cases_file).expect("cases file"));
        for line in f.lines() {
            let line = line.unwrap();
            if !line.starts_with("<<\"CASE\"") {
                continue;
            }
            let start = line.find(", \"").unwrap() + 2;
            let end = line.rfind('"').unwrap();
            let s: String = serde_json::from_str(&line[start..=end]).unwrap();
            let v: Value = serde_json::from_str(&s).unwrap();
            let tk = Toks::new(cases as usize);
            put(do_join(&tk, &v["base"], &toks_of(&v["arg"])), &mut n);
            cases += 1;
        }
    }
    // (2) seeded random strings beyond the enumeration bound, larger alphabet
    let mut rng = StdRng::seed_from_u64(seed);
    let alpha = ["/", "/", ".", ".", "a", "e", "b", "u"];
    let comps_pool = [vec!["a"], vec!["e"], vec!["a", "."], vec![".", "e"], vec!["b", ".", "u"], vec![".", ".", "a"]];
    for i in 0..random_n {
        let tk = Toks::new(i);
        let depth = rng.gen_range(0..4);
        let base: Vec<Vec<&str>> = (0..depth).map(|_| comps_pool[rng.gen_range(0..comps_pool.len())].clone()).collect();
        let len = rng.gen_range(0..64);
        // mix: uniformly random tokens, or a sequence of "interesting" fragments
        let arg: Vec<String> = if rng.gen_bool(0.5) {
            (0..len).map(|_| alpha[rng.gen_range(0..alpha.len())].to_string()).collect()
        } else {
            let frags = ["..", "/", ".", "//", "a", "e.", "../", "./", ".a", "/..", "b", "..."];
            let mut s = String::new();
            for _ in 0..rng.gen_range(0..14) {
                s += frags[rng.gen_range(0..frags.len())];
            }
            s.chars().map(|c| c.to_string()).collect()
        };
        put(do_join(&tk, &json!(base), &arg), &mut n);
    }
    // (3) chains of join / parent / root from the root
    let mut chains = 0;
    let small = ["a", "..", ".", "a/e", "../a", "/", "/e", "a/", "e/..", "./.", "a//e", "..a", "a.e"];
    for i in 0..chains_n {
        let tk = Toks::new(i);
        let k = rng.gen_range(1..4);
        let mut steps = vec![];
        for _ in 0..k {
            let r = rng.gen_range(0..10);
            if r < 7 {
                let a: Vec<String> = small[rng.gen_range(0..small.len())].chars().map(|c| c.to_string()).collect();
                steps.push(json!({"op":"join","arg":a}));
            } else if r < 9 {
                steps.push(json!({"op":"parent","arg":[]}));
            } else {
                steps.push(json!({"op":"root","arg":[]}));
            }
        }
        let run_s = guard(|| -> VfsResult<VfsPath> {
            let mut p = sroot.clone();
            for s in &steps {
                p = match s["op"].as_str().unwrap() {
                    "join" => p.join(tk.conc(&toks_of(&s["arg"])))?,
                    "parent" => p.parent(),
                    _ => p.root(),
                };
            }
            Ok(p)
        });
        let run_a = guard(|| -> VfsResult<AsyncVfsPath> {
            let mut p = aroot.clone();
            for s in &steps {
                p = match s["op"].as_str().unwrap() {
                    "join" => p.join(tk.conc(&toks_of(&s["arg"])))?,
                    "parent" => p.parent(),
                    _ => p.root(),
                };
            }
            Ok(p)
        });
        let rec = |c: &str, s: Option<String>| match s {
            None => json!({"c":c,"path":[]}),
            Some(s) => json!({"c":c,"path":tk.comps(&s).1}),
        };
        let js = match run_s {
            Err(()) => rec("panic", None),
            Ok(Err(e)) => rec(if matches!(e.kind(), VfsErrorKind::InvalidPath) { "invalid_path" } else { "err" }, None),
            Ok(Ok(p)) => rec("ok", Some(p.as_str().to_string())),
        };
        let ja = match run_a {
            Err(()) => rec("panic", None),
            Ok(Err(e)) => rec(if matches!(e.kind(), VfsErrorKind::InvalidPath) { "invalid_path" } else { "err" }, None),
            Ok(Ok(p)) => rec("ok", Some(p.as_str().to_string())),
        };
        put(json!({"ev":"chain","steps":steps,"sync":js,"async":ja}), &mut n);
        chains += 1;
    }
    if let Some(w) = w.as_mut() {
        w.flush().unwrap();
    }
    json!({"events":n,"cases":cases,"random":random_n,"chains":chains,"segments":n,"distinct_state_ops":n})
}
