//! A session = one world (configuration instance) + concretisation; produces trace events
//! (DESIGN §4.2): init, call.  Also carries the twin world for altroot configurations (C07).
use crate::cfg::*;
use crate::exec::*;
use crate::names::*;
use crate::obs::*;
use serde_json::{json, Value};
use std::io::Write;
use vfs::*;

pub type Snap = Vec<Vec<i64>>;

pub struct Session {
    pub w: World,
    pub twin: Option<World>,
    pub cx: Conc,
    pub universe: Vec<Vec<String>>,
    pub rot: usize,
    pub light: bool, // omit layer/twin bookkeeping
    /// lock-step partner (C02: the same calls on MemoryFS and on PhysicalFS): executed after this
    /// session's call, recorded in the same event as "other"
    pub other: Option<Box<Session>>,
}

/// create the entries of an LTS snapshot on a filesystem through its own handle (parents first:
/// the universe sequence lists parents before children)
pub fn populate(root: &VfsPath, universe: &[Vec<String>], snap: &Snap, cx: &Conc) {
    for (p, n) in universe.iter().zip(snap.iter()) {
        match n[0] {
            0 => {}
            1 => pop_check("create_dir", p, guard(|| cx.path(root, p).create_dir())),
            _ => pop_check(
                "create_file+write",
                p,
                guard(|| {
                    let mut h = cx.path(root, p).create_file()?;
                    h.write_all(&conc_bytes(&n[1..], cx.b)).map_err(|e| vfs::VfsError::from(vfs::error::VfsErrorKind::IoError(e)))
                }),
            ),
        }
    }
}

thread_local! {
    /// Failures while CONSTRUCTING a state through the public API (a directory or file whose parent was
    /// just created could not be created, or the call panicked).  They are data about the code under test,
    /// not tool errors: the next init event carries them and TLC reports the `populate` conjunct.
    pub static POPFAIL: std::cell::RefCell<Vec<String>> = std::cell::RefCell::new(vec![]);
}
pub fn pop_check(what: &str, p: &[String], r: Result<vfs::VfsResult<()>, ()>) {
    let msg = match r {
        Ok(Ok(())) => return,
        Ok(Err(e)) => format!("{what} {} -> {}", p.join("/"), class_of(&e)),
        Err(()) => format!("{what} {} -> panic", p.join("/")),
    };
    POPFAIL.with(|f| f.borrow_mut().push(msg));
}
pub fn take_popfail() -> Vec<String> {
    POPFAIL.with(|f| std::mem::take(&mut *f.borrow_mut()))
}

fn put_canaries(u: &Under, cx: &Conc) {
    if u.prefix.is_empty() {
        return; // P = underlying root: nothing is outside
    }
    let r = &u.root;
    let mk_file = |p: VfsPath, s: &[i64]| {
        if let Ok(mut h) = p.create_file() {
            let _ = h.write_all(&conc_bytes(s, cx.b));
        }
    };
    mk_file(r.join("zc").unwrap(), &[1]);
    let _ = r.join("zd").unwrap().create_dir();
    mk_file(r.join("zd/zc").unwrap(), &[2]);
    // an entry with a universe name right beside / above P: a '..' escape would hit it
    if !u.prefix.is_empty() {
        mk_file(r.join(cx.names.conc_name("a")).unwrap(), &[1, 2]);
        let mut par = r.clone();
        for (i, c) in u.prefix.iter().enumerate() {
            if i + 1 < u.prefix.len() {
                par = par.join(c).unwrap();
                mk_file(par.join("zc").unwrap(), &[1]);
                mk_file(par.join(cx.names.conc_name("b")).unwrap(), &[2]);
            }
        }
    }
}

impl Session {
    pub fn new(cfg: &str, names: &str, b: usize, universe: &[Vec<String>]) -> Session {
        let w = build(cfg);
        let cx = Conc::new(names, b);
        let twin = if w.under.is_some() { Some(build(cfg)) } else { None };
        if let Some(u) = &w.under {
            put_canaries(u, &cx);
        }
        if let Some(t) = &twin {
            put_canaries(t.under.as_ref().unwrap(), &cx);
        }
        Session { w, twin, cx, universe: universe.to_vec(), rot: 0, light: false, other: None }
    }

    /// construct an LTS state through the configuration's own public API (and identically in the twin world)
    pub fn populate_state(&self, snap: &Snap) {
        if let Some(o) = &self.other {
            o.populate_state(snap);
        }
        populate(&self.w.root, &self.universe, snap, &self.cx);
        if let Some(t) = &self.twin {
            populate(&t.under.as_ref().unwrap().root, &self.universe, snap, &self.twin_cx());
        }
    }

    /// pre-populate the layers of a top-level overlay (index 0 = upper) through their own handles
    pub fn populate_layers(&self, snaps: &[Option<Snap>]) {
        for (l, s) in self.w.layers.iter().zip(snaps.iter()) {
            if let Some(s) = s {
                populate(&l.root, &self.universe, s, &self.cx);
            }
        }
    }

    /// whiteout markers of a write layer that was used before (written through the layer's own handle, the
    /// way the overlay itself does: <layer>/.whiteout/<path>_wo, parents created as needed)
    pub fn populate_markers(&self, markers: &[Vec<String>]) {
        if let Some(l0) = self.w.layers.get(0) {
            for m in markers {
                let file = format!(".whiteout/{}_wo", self.cx.names.conc_path(m));
                let p = l0.root.join(&file).expect("marker path");
                pop_check("marker create_dir_all", m, guard(|| p.parent().create_dir_all()));
                pop_check("marker create_file", m, guard(|| p.create_file().map(|_| ())));
            }
        }
    }

    /// the directory on disk that backs the root of a `phys` / `alt(P, phys)` configuration
    pub fn backing_dir(&self) -> Option<std::path::PathBuf> {
        use crate::cfg::Term;
        let direct = match &self.w.term {
            Term::Phys => true,
            Term::Alt(_, inner) => matches!(**inner, Term::Phys),
            _ => false,
        };
        if !direct {
            return None;
        }
        let mut d = self.w.tmp.get(0)?.join("root");
        if let Some(u) = &self.w.under {
            for c in &u.prefix {
                d = d.join(self.cx.names.conc_name(c));
            }
        }
        Some(d)
    }
    /// what std::fs finds below the backing directory (C07: everything a PhysicalFS creates lies inside its
    /// root directory - and is really there)
    pub fn disk_json(&self) -> Option<Value> {
        let top = self.backing_dir()?;
        let mut out = vec![];
        let mut stack = vec![(top, Vec::<String>::new())];
        while let Some((d, pre)) = stack.pop() {
            let rd = match std::fs::read_dir(&d) {
                Ok(r) => r,
                Err(_) => continue,
            };
            for ent in rd.flatten() {
                let name = ent.file_name().to_string_lossy().to_string();
                let mut p = pre.clone();
                p.push(self.cx.names.abs_name(&name));
                let md = match std::fs::symlink_metadata(ent.path()) {
                    Ok(m) => m,
                    Err(_) => continue,
                };
                if md.is_dir() {
                    out.push(json!({"p":p,"k":"dir","d":[]}));
                    stack.push((ent.path(), p));
                } else {
                    let bytes = std::fs::read(ent.path()).unwrap_or_default();
                    out.push(json!({"p":p,"k":"file","d":crate::names::abs_bytes(&bytes, self.cx.b)}));
                }
            }
        }
        out.sort_by(|a, b| a["p"].to_string().cmp(&b["p"].to_string()));
        Some(Value::Array(out))
    }

    /// the paths that carry a whiteout marker in the write layer (decoded with the name table; Level-B binding)
    fn markers_json(&self) -> Value {
        let mut out: Vec<Vec<String>> = vec![];
        if let Some(l0) = self.w.layers.get(0) {
            if let Ok(wo) = l0.root.join(".whiteout") {
                let mut stack = vec![(wo, Vec::<String>::new())];
                while let Some((d, pre)) = stack.pop() {
                    let kids = match guard(|| d.read_dir().map(|it| it.collect::<Vec<_>>())) {
                        Ok(Ok(k)) => k,
                        _ => continue,
                    };
                    for k in kids {
                        let name = k.filename();
                        let isdir = matches!(guard(|| k.is_dir()), Ok(Ok(true)));
                        if isdir {
                            let mut p = pre.clone();
                            p.push(self.cx.names.abs_name(&name));
                            stack.push((k, p));
                        } else if let Some(stem) = name.strip_suffix("_wo") {
                            let mut p = pre.clone();
                            p.push(self.cx.names.abs_name(stem));
                            out.push(p);
                        }
                    }
                }
            }
        }
        out.sort();
        json!(out)
    }
    fn layers_json(&self) -> Value {
        Value::Array(self.w.layers.iter().map(|l| raw_snapshot(&l.root, &self.cx, true)).collect())
    }
    fn layer_times(&self) -> Value {
        Value::Array(self.w.layers.iter().map(|l| raw_snapshot(&l.root, &self.cx, false)).collect())
    }
    fn twin_cx(&self) -> Conc {
        let mut c = self.cx.clone();
        c.prefix = self.w.under.as_ref().unwrap().prefix.clone();
        c
    }

    pub fn init_event(&mut self) -> Value {
        self.rot += 1;
        let obs = observe(&self.w.root, &self.universe, &self.cx, self.rot);
        let mut e = json!({"ev":"init","cfg":self.w.cfg,"kind":self.w.term.kind(),"sup":self.w.term.sup(),"ro":false,
            "names":self.cx.names.id,"b":self.cx.b,"universe":self.universe,"obs":obs});
        if !self.w.layers.is_empty() && !self.light {
            e["layers"] = self.layers_json();
            e["wo"] = self.markers_json();
        }
        if let (Some(u), false) = (&self.w.under, self.light) {
            e["prefix"] = json!(u.prefix);
            e["outside"] = raw_snapshot(&u.root, &self.cx, true);
            let t = self.twin.as_ref().unwrap().under.as_ref().unwrap();
            e["twinobs"] = observe(&t.root, &self.universe, &self.twin_cx(), self.rot);
        }
        if let Some(o) = self.other.as_mut() {
            let oe = o.init_event();
            e["other"] = json!({"cfg":oe["cfg"],"obs":oe["obs"]});
        }
        if let (Some(d), false) = (self.disk_json(), self.light) {
            e["disk"] = d;
        }
        let pf = take_popfail();
        if !pf.is_empty() {
            e["popfail"] = json!(pf);
        }
        e
    }

    /// run one operation and produce its call event
    pub fn step(&mut self, op: &Op) -> Value {
        self.rot += 1;
        // timestamp values rotate through the tick table (epoch, pre-epoch, far future, sub-second parts)
        let mut op_t = op.clone();
        if op.op == "set_time" {
            op_t.tick = self.rot % 8;
        }
        let op = &op_t;
        let cx = &self.cx;
        let root = &self.w.root;
        let full = !self.light;
        let ltpre = if full && self.w.layers.len() > 1 { self.layer_times() } else { json!([]) };
        // metadata of the target(s) immediately around the call (timestamps: C19)
        let pre_p = md_json(cx, guard(|| cx.path(root, &op.p).metadata()));
        let pre_q = if op.has_dest() { md_json(cx, guard(|| cx.path(root, &op.q).metadata())) } else { json!({"c":"skip"}) };
        for l in &self.w.layers {
            l.log.start();
        }
        if let Some(u) = &self.w.under {
            u.log.start();
        }
        let res = exec(root, root, op, cx);
        let post_p = md_json(cx, guard(|| cx.path(root, &op.p).metadata()));
        let mut calls = vec![];
        let mut opened = vec![];
        // layers that are sub-paths of one recorded filesystem share one log: attribute each call by its path prefix
        let shared = self.w.layers.len() > 1 && self.w.layers.iter().all(|l| l.prefix.is_some());
        let shared_log: Vec<(&'static str, String)> = if shared { self.w.layers[0].log.stop() } else { vec![] };
        for (i, l) in self.w.layers.iter().enumerate() {
            let log: Vec<(&'static str, String)> = if shared {
                let pre = l.prefix.as_ref().unwrap();
                shared_log.iter().filter(|(_, p)| p == pre || p.starts_with(&format!("{pre}/"))).map(|(m, p)| (*m, p[pre.len()..].to_string())).collect()
            } else {
                l.log.stop()
            };
            let mut seen = std::collections::BTreeSet::new();
            for (m, p) in log {
                if m == "open_file" {
                    opened.push(json!([i + 1, cx.names.abs_path(&p).unwrap_or_default()]));
                }
                if seen.insert(m) {
                    calls.push(json!([i + 1, m]));
                }
            }
        }
        let mut ucalls = vec![];
        if let Some(u) = &self.w.under {
            let mut seen = std::collections::BTreeSet::new();
            for (_m, p) in u.log.stop() {
                if seen.insert(p.clone()) {
                    ucalls.push(cx.names.abs_path(&p).unwrap_or_else(|| vec![format!("!raw:{p}")]));
                }
            }
        }
        let ltpost = if full && self.w.layers.len() > 1 { self.layer_times() } else { json!([]) };
        // observation phase (its calls into the layers are recorded separately: observers must not mutate)
        for l in &self.w.layers {
            l.log.start();
        }
        let obs = observe(root, &self.universe, cx, self.rot);
        let mut ocalls = vec![];
        let shared_olog: Vec<(&'static str, String)> = if shared { self.w.layers[0].log.stop() } else { vec![] };
        for (i, l) in self.w.layers.iter().enumerate() {
            let log: Vec<(&'static str, String)> = if shared {
                let pre = l.prefix.as_ref().unwrap();
                shared_olog.iter().filter(|(_, p)| p == pre || p.starts_with(&format!("{pre}/"))).cloned().collect()
            } else {
                l.log.stop()
            };
            let mut seen = std::collections::BTreeSet::new();
            for (m, _p) in log {
                if seen.insert(m) {
                    ocalls.push(json!([i + 1, m]));
                }
            }
        }
        let mut e = op.to_json();
        e["ev"] = json!("call");
        e["res"] = res.to_json();
        e["pre"] = json!({"p":pre_p,"q":pre_q});
        e["post"] = post_p;
        e["obs"] = obs;
        if !self.w.layers.is_empty() && full {
            e["layers"] = self.layers_json();
            e["wo"] = self.markers_json();
            e["calls"] = Value::Array(calls);
            e["ocalls"] = Value::Array(ocalls);
            e["opened"] = Value::Array(opened);
            e["ltpre"] = ltpre;
            e["ltpost"] = ltpost;
        }
        if let (Some(u), true) = (&self.w.under, full) {
            e["ucalls"] = json!(ucalls);
            e["outside"] = raw_snapshot(&u.root, cx, true);
            // the twin call on P/q of the underlying filesystem of an identical second world
            let tcx = self.twin_cx();
            let t = self.twin.as_ref().unwrap().under.as_ref().unwrap();
            let tres = exec(&t.root, &t.root, op, &tcx);
            let tobs = observe(&t.root, &self.universe, &tcx, self.rot);
            e["twin"] = json!({"res":tres.to_json(),"obs":tobs});
        }
        if let Some(o) = self.other.as_mut() {
            o.rot = self.rot - 1; // same tick rotation
            let oe = o.step(op);
            e["other"] = json!({"res":oe["res"],"obs":oe["obs"]});
        }
        if full {
            if let Some(d) = self.disk_json() {
                e["disk"] = d;
            }
        }
        e
    }
}
