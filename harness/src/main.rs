//! Harness CLI.  Executes, observes, projects and records; all judging is done by TLC on the traces
//! (the fast path only compares records with what TLC printed).
mod afaultrun;
mod awalkrun;
mod aworld;
mod cfg;
mod conc;
mod concrun;
mod embrun;
mod exec;
mod faultrun;
mod handles;
mod hostile;
mod joinrun;
mod lts;
mod names;
mod obs;
mod replay;
mod session;
mod tree2;

use serde_json::json;
use std::collections::HashMap;
use std::path::PathBuf;
use std::sync::Arc;

fn args_map() -> (String, HashMap<String, String>) {
    let mut it = std::env::args().skip(1);
    let cmd = it.next().unwrap_or_else(|| "help".into());
    let mut m = HashMap::new();
    let rest: Vec<String> = it.collect();
    let mut i = 0;
    while i < rest.len() {
        let k = rest[i].trim_start_matches("--").to_string();
        if i + 1 < rest.len() && !rest[i + 1].starts_with("--") {
            m.insert(k, rest[i + 1].clone());
            i += 2;
        } else {
            m.insert(k, "true".into());
            i += 1;
        }
    }
    (cmd, m)
}

fn main() {
    if std::env::var("VERIF_DEBUG").is_err() {
        std::panic::set_hook(Box::new(|_| {}));
    }
    let (cmd, a) = args_map();
    let get = |k: &str, d: &str| a.get(k).cloned().unwrap_or_else(|| d.to_string());
    let code = match cmd.as_str() {
        "walk" => {
            let lts = Arc::new(lts::Lts::load(&PathBuf::from(get("lts", ""))));
            let o = Arc::new(lts::WalkOpts {
                cfg: get("cfg", "mem"),
                names: get("names", "ascii"),
                b: get("b", "1").parse().unwrap(),
                mode: get("mode", "edges"),
                frac: get("frac", "1.0").parse().unwrap(),
                seed: get("seed", "1").parse().unwrap(),
                out: PathBuf::from(get("out", "work/traces")),
                threads: get("threads", "4").parse().unwrap(),
                walks: get("walks", "100").parse().unwrap(),
                len: get("len", "40").parse().unwrap(),
                light: a.contains_key("light"),
                split: a.contains_key("split"),
                lower_only: a.contains_key("lower-only"),
                ops: a.get("ops").map(|s| s.split(',').map(|x| x.to_string()).collect()).unwrap_or_default(),
                max_events: get("max-events", "100000000").parse().unwrap(),
            });
            let r = lts::run_walk(lts.clone(), o);
            let mut r = r;
            r["lts_states"] = json!(lts.states.len());
            r["lts_edges"] = json!(lts.nedges);
            println!("{}", r);
            0
        }
        "faults" => {
            let lts = Arc::new(lts::Lts::load(&PathBuf::from(get("lts", ""))));
            let o = lts::WalkOpts {
                cfg: get("cfg", "fault(mem)"), names: get("names", "ascii"), b: get("b", "1").parse().unwrap(), mode: "faults".into(), frac: 1.0,
                seed: get("seed", "1").parse().unwrap(), out: PathBuf::from(get("out", "work/faults")), threads: 1, walks: 0, len: 0, light: false,
                split: a.contains_key("split"), lower_only: false, max_events: 100000000, ops: vec![],
            };
            if o.cfg.starts_with("async:") {
                println!("{}", afaultrun::run(lts, &o, get("pairs", "50").parse().unwrap()));
            } else {
                println!("{}", faultrun::run(lts, &o, get("pairs", "50").parse().unwrap()));
            }
            0
        }
        "awalk" => {
            let lts = lts::Lts::load(&PathBuf::from(get("lts", "")));
            let cfgs: Vec<String> = get("cfgs", "mem").split(';').map(|s| s.to_string()).collect();
            println!("{}", awalkrun::run(&lts, &cfgs, get("seed", "1").parse().unwrap(), get("trees", "10").parse().unwrap(), get("dense", "10").parse().unwrap(),
                                         get("pair-frac", "0.2").parse().unwrap(), &PathBuf::from(get("out", "work/awalk"))));
            0
        }
        "hostile" => {
            let cfgs: Vec<String> = get("cfgs", "alt(zr,mem)").split(';').map(|s| s.to_string()).collect();
            println!("{}", hostile::run(&cfgs, &get("cases", ""), get("seed", "1").parse().unwrap(), get("sample", "100").parse().unwrap(), &PathBuf::from(get("out", "work/hostile"))));
            0
        }
        "replay" => {
            let spec: serde_json::Value = serde_json::from_str(&std::fs::read_to_string(get("spec", "")).expect("spec file")).expect("spec json");
            println!("{}", replay::run(&spec, &PathBuf::from(get("out", "work/replay"))));
            0
        }
        "hostiledir" => {
            let cfgs: Vec<String> = get("cfgs", "phys").split(';').map(|s| s.to_string()).collect();
            println!("{}", hostile::run_hostile_dir(&cfgs, &PathBuf::from(get("out", "work/hostiledir"))));
            0
        }
        "rootops" => {
            let cfgs: Vec<String> = get("cfgs", "mem").split(';').map(|s| s.to_string()).collect();
            println!("{}", hostile::run_rootops(&cfgs, &PathBuf::from(get("out", "work/rootops"))));
            0
        }
        "ahostile" => {
            let cfgs: Vec<String> = get("cfgs", "mem").split(';').map(|s| s.to_string()).collect();
            println!("{}", hostile::run_async_hostile(&cfgs, &PathBuf::from(get("out", "work/ahostile"))));
            0
        }
        "twowriters" => {
            let cfgs: Vec<String> = get("cfgs", "mem").split(';').map(|s| s.to_string()).collect();
            println!("{}", handles::run_two_writers(&cfgs, get("scripts", "50").parse().unwrap(), get("seed", "1").parse().unwrap(), get("b", "1").parse().unwrap(), &PathBuf::from(get("out", "work/tw"))));
            0
        }
        "embdyn" => {
            println!("{}", embrun::run_dyn(&get("cases", ""), &get("names", "ascii"), &PathBuf::from(get("out", "work/embdyn"))));
            0
        }
        "emb" => {
            println!("{}", embrun::run(&PathBuf::from(get("out", "work/emb"))));
            0
        }
        "handles" => {
            let lts = handles::HLts::load(&PathBuf::from(get("lts", "")));
            let o = handles::HOpts {
                cfg: get("cfg", "mem"),
                names: get("names", "ascii"),
                b: get("b", "1").parse().unwrap(),
                seed: get("seed", "1").parse().unwrap(),
                walks: get("walks", "50").parse().unwrap(),
                len: get("len", "60").parse().unwrap(),
                out: PathBuf::from(get("out", "work/handles")),
                lower_file: a.contains_key("lower-file"),
                extreme: a.contains_key("extreme"),
                depth: get("depth", "1").parse().unwrap(),
                no_zero_read: a.contains_key("no-zero-read"),
            };
            println!("{}", handles::run(&lts, &o));
            0
        }
        "tree2" => {
            let r = tree2::run(&PathBuf::from(get("lts", "")), &get("cfg1", "mem"), &get("cfg2", "mem"), &get("names", "ascii"), get("b", "1").parse().unwrap(),
                               get("frac", "0.01").parse().unwrap(), get("seed", "1").parse().unwrap(), &PathBuf::from(get("out", "work/tree2")));
            println!("{}", r);
            0
        }
        #[cfg(feature = "hooks")]
        "conc" => {
            let r = concrun::run(&get("prop", "C16"), &get("tier", "quick"), get("seed", "1").parse().unwrap(), &PathBuf::from(get("out", "work/conc")),
                                 get("threads", "8").parse().unwrap());
            println!("{}", r);
            0
        }
        #[cfg(feature = "hooks")]
        "conc1" => {
            let spec: serde_json::Value = serde_json::from_str(&std::fs::read_to_string(get("spec", "")).expect("spec file")).expect("spec json");
            println!("{}", concrun::run_one(&spec, &PathBuf::from(get("out", "work/conc1"))));
            0
        }
        "join" => {
            let r = joinrun::run(&get("cases", ""), &get("out", "work/join"), get("seed", "1").parse().unwrap(),
                                 get("random", "2000").parse().unwrap(), get("chains", "2000").parse().unwrap());
            println!("{}", r);
            0
        }
        _ => {
            eprintln!("usage: harness walk --lts F --cfg C --mode edges|paths|random ...");
            2
        }
    };
    let _ = std::fs::remove_dir_all(cfg::tmp_base());
    std::process::exit(code);
}
