//! C20 on the async port: the fault sweep of faultrun.rs for the async twins.  For sampled (state, operation)
//! pairs: count the calls n the operation makes into the wrapped async filesystem, then for every k = 1..n
//! rebuild the world, fail the k-th call, run the operation and record result + observation.
use crate::aworld::*;
use crate::exec::*;
use crate::lts::*;
use crate::obs::*;
use rand::rngs::StdRng;
use rand::seq::SliceRandom;
use rand::{Rng, SeedableRng};
use serde_json::{json, Value};
use std::sync::Arc;
use vfs::async_vfs::AsyncVfsPath;

async fn aobs_op(root: &AsyncVfsPath, cx: &Conc, op: &str, p: &[String]) -> Value {
    use futures::StreamExt;
    let q = apath(cx, root, p);
    let fail = |e: &vfs::VfsError| json!({"c":class_of(e),"v":[],"ep":cx.ep(e.path()),"val":0});
    let panicked = || json!({"c":"panic","v":[],"ep":["-"],"val":0});
    macro_rules! boolop {
        ($f:expr) => {
            match aguard_pub($f).await {
                Err(()) => panicked(),
                Ok(Err(e)) => fail(&e),
                Ok(Ok(x)) => json!({"c":"ok","v":[x],"ep":["-"],"val":0}),
            }
        };
    }
    match op {
        "exists" => boolop!(q.exists()),
        "is_dir" => boolop!(q.is_dir()),
        "is_file" => boolop!(q.is_file()),
        "metadata" => match aguard_pub(q.metadata()).await {
            Err(()) => panicked(),
            Ok(Err(e)) => fail(&e),
            Ok(Ok(m)) => json!({"c":"ok","v":[if m.file_type == vfs::VfsFileType::Directory {json!("dir")} else {json!("file")}, json!(crate::names::abs_len(m.len, cx.b))],"ep":["-"],"val":0}),
        },
        "read_dir" => match aguard_pub(async { Ok::<_, vfs::VfsError>(q.read_dir().await?.map(|x| cx.names.abs_name(&x.filename())).collect::<Vec<_>>().await) }).await {
            Err(()) => panicked(),
            Ok(Err(e)) => fail(&e),
            Ok(Ok(v)) => json!({"c":"ok","v":v,"ep":["-"],"val":0}),
        },
        "walk_dir" => match aguard_pub(async {
            let mut it = q.walk_dir().await?;
            let mut v = vec![];
            let mut err = None;
            let mut n = 0;
            while let Some(item) = it.next().await {
                n += 1;
                if n > 10_000 {
                    break;
                }
                match item {
                    Ok(p) => v.push(cx.abs_of_str(p.as_str())),
                    Err(e) => err = Some(e),
                }
            }
            Ok::<_, vfs::VfsError>((v, err))
        })
        .await
        {
            Err(()) => panicked(),
            Ok(Err(e)) => fail(&e),
            Ok(Ok((_v, Some(e)))) => fail(&e),
            Ok(Ok((v, None))) => json!({"c":"ok","v":v,"ep":["-"],"val":0}),
        },
        other => panic!("unknown observer op {other}"),
    }
}

pub fn run(lts: Arc<Lts>, o: &WalkOpts, pairs: usize) -> Value {
    let cfg = o.cfg.strip_prefix("async:").unwrap_or(&o.cfg).to_string();
    let mut rng = StdRng::seed_from_u64(o.seed);
    let stem: String = format!("aflt-{}-{}", cfg, o.names).chars().map(|c| if c.is_ascii_alphanumeric() || c == '-' { c } else { '_' }).collect();
    let mut out = TraceOut::new(&o.out, &stem);
    let mut executions = 0u64;
    let mut probes = 0u64;
    let mut maxn = 0u64;
    let obs_ops = ["exists", "is_dir", "is_file", "metadata", "read_dir", "walk_dir"];
    let mut rec_edges: Vec<(usize, usize)> = vec![];
    for (si, es) in lts.edges.iter().enumerate() {
        for (ei, e) in es.iter().enumerate() {
            if matches!(e.op.op.as_str(), "copy_dir" | "move_dir") && e.allowed.len() == 1 && e.allowed[0] == "ok"
                && lts.universe.iter().enumerate().any(|(j, q)| q.len() > e.op.p.len() && q[..e.op.p.len()] == e.op.p[..] && lts.states[si][j][0] != 0)
            {
                rec_edges.push((si, ei));
            }
        }
    }
    for _ in 0..pairs {
        // copies / moves of a NON-EMPTY directory that succeed are rare among the edges (the destination must be
        // free): every seventh pair is drawn from them directly
        let forced: Option<(usize, usize)> = if !rec_edges.is_empty() && rng.gen_bool(0.15) { Some(rec_edges[rng.gen_range(0..rec_edges.len())]) } else { None };
        let si = forced.map(|x| x.0).unwrap_or_else(|| rng.gen_range(0..lts.states.len()));
        let s = lts.states[si].clone();
        let use_obs = forced.is_none() && rng.gen_bool(0.3);
        let (opj, is_obs): (Value, bool) = if use_obs {
            let op = obs_ops.choose(&mut rng).unwrap();
            let p = if rng.gen_bool(0.2) { vec![] } else { lts.universe.choose(&mut rng).unwrap().clone() };
            (json!({"op":op,"p":p,"q":[],"c":[],"f":"","tick":0}), true)
        } else {
            let es = &lts.edges[si];
            let comp: Vec<&Edge> = es.iter().filter(|e| e.to != si || matches!(e.op.op.as_str(), "create_dir_all" | "remove_dir_all" | "copy_file" | "move_file" | "copy_dir" | "move_dir")).collect();
            // recursive operations on a NON-EMPTY directory make the longest call sequences (and are a tiny share of the
            // edges): a third of the picks goes to them when the state has one
            let has_kids = |p: &Vec<String>| lts.universe.iter().enumerate().any(|(j, q)| q.len() > p.len() && q[..p.len()] == p[..] && s[j][0] != 0);
            let heavy: Vec<&Edge> = es.iter().filter(|e| matches!(e.op.op.as_str(), "copy_dir" | "move_dir" | "remove_dir_all") && has_kids(&e.op.p) && e.allowed.len() == 1 && e.allowed[0] == "ok").collect();
            let e: &Edge = if let Some((_, ei)) = forced {
                &es[ei]
            } else if !heavy.is_empty() && rng.gen_bool(0.35) {
                heavy.choose(&mut rng).unwrap()
            } else if !comp.is_empty() && rng.gen_bool(0.8) {
                comp.choose(&mut rng).unwrap()
            } else {
                es.choose(&mut rng).unwrap()
            };
            (e.op.to_json(), false)
        };
        let mk = || -> ASession {
            let a = ASession::new(&cfg, &o.names, o.b, &lts.universe);
            a.populate_state(&s);
            a
        };
        let run_op = |sess: &ASession| -> Value {
            let op = Op::from_json(&opj);
            sess.w.rt.block_on(async {
                if is_obs {
                    aobs_op(&sess.w.root, &sess.cx, &op.op, &op.p).await
                } else {
                    aexec(&sess.w.root, &sess.w.root, &op, &sess.cx).await.to_json()
                }
            })
        };
        let probe = mk();
        if probe.w.faults.is_empty() {
            panic!("configuration {} has no fault(..) layer", o.cfg);
        }
        for f in &probe.w.faults {
            f.arm(-1);
        }
        let _ = run_op(&probe);
        let n: u64 = probe.w.faults.iter().map(|f| f.disarm()).max().unwrap_or(0);
        probes += 1;
        maxn = maxn.max(n);
        drop(probe);
        for k in 1..=n {
            let mut sess = mk();
            let init = sess.init_event();
            for f in &sess.w.faults {
                f.arm(k as i64);
            }
            let res = run_op(&sess);
            let mut fired = false;
            let mut method = String::new();
            for f in &sess.w.faults {
                f.disarm();
                if f.fired.load(std::sync::atomic::Ordering::SeqCst) {
                    fired = true;
                    method = f.fired_method.lock().unwrap().clone();
                }
            }
            if !fired {
                continue;
            }
            sess.rot += 1;
            let obs = sess.w.rt.block_on(aobserve(&sess.w.root, &sess.universe, &sess.cx, sess.rot));
            let mut e = opj.clone();
            e["ev"] = json!("fcall");
            e["k"] = json!(k);
            e["n"] = json!(n);
            e["method"] = json!(method);
            e["res"] = res;
            e["obs"] = obs;
            out.begin(&init);
            out.put(&e);
            executions += 1;
        }
    }
    out.finish();
    json!({"cfg":o.cfg,"mode":"async-faults","names":o.names,"b":o.b,"events":out.total_events,"segments":out.segments,"edges_run":executions,
           "distinct_state_ops":probes,"fault_probes":probes,"faulted_executions":executions,"max_calls_per_operation":maxn})
}
