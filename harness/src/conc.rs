//! C16 / C17 driver: a cooperative scheduler drives real threads through the yield points the
//! `verif-hooks` feature places before every lock acquisition of MemoryFS (and at the entry of
//! PhysicalFS::create_dir).  Exactly one thread runs between two yield points, so a schedule is a
//! sequence of thread choices; schedules are explored by stateless DFS (exhaustively, or bounded by
//! the number of preemptions).  Every distinct history (per-call results + final snapshot) is written
//! to a trace together with the outcomes of all sequential call orders measured on the same code;
//! Trace_Lin (TLC) decides whether some sequential order explains the history.
use crate::cfg::*;
use crate::names::*;
use crate::obs::*;
use serde_json::{json, Value};
use std::collections::{BTreeMap, BTreeSet};
use std::io::{Read, Write};
use std::sync::{Arc, Condvar, Mutex};
use std::time::Duration;
#[cfg(feature = "hooks")]
use vfs::verif_hooks::{self, Scheduler};
use vfs::*;

#[derive(Clone, Debug, PartialEq, Eq, PartialOrd, Ord)]
pub struct Call {
    pub op: String,
    pub p: Vec<String>,
    pub c: Vec<i64>,
}
impl Call {
    pub fn new(op: &str, p: &[&str], c: &[i64]) -> Call {
        Call { op: op.to_string(), p: p.iter().map(|s| s.to_string()).collect(), c: c.to_vec() }
    }
    pub fn to_json(&self) -> Value {
        json!({"op":self.op,"p":self.p,"c":self.c})
    }
}

/// per logical thread: the write handle opened by cf_open / ap_open and closed by close
#[derive(Default)]
pub struct Slot {
    pub h: Option<Box<dyn SeekAndWrite + Send>>,
}

fn cls_only<T>(r: Result<VfsResult<T>, ()>) -> String {
    match r {
        Err(()) => "[\"panic\"]".into(),
        Ok(Err(_)) => "[\"err\"]".into(),
        Ok(Ok(_)) => "[\"ok\"]".into(),
    }
}

/// one public call; the result string is the comparison granularity of C16: ok/err plus returned values
pub fn run_call(root: &VfsPath, cx: &Conc, call: &Call, slot: &mut Slot) -> String {
    let p = cx.path(root, &call.p);
    match call.op.as_str() {
        "create_dir" => cls_only(guard(|| p.create_dir())),
        "create_dir_all" => cls_only(guard(|| p.create_dir_all())),
        "remove_file" => cls_only(guard(|| p.remove_file())),
        "remove_dir" => cls_only(guard(|| p.remove_dir())),
        "cf_open" | "ap_open" => match guard(|| if call.op == "cf_open" { p.create_file() } else { p.append_file() }) {
            Err(()) => "[\"panic\"]".into(),
            Ok(Err(_)) => "[\"err\"]".into(),
            Ok(Ok(h)) => {
                slot.h = Some(h);
                "[\"ok\"]".into()
            }
        },
        "close" => match slot.h.take() {
            None => "[\"nohandle\"]".into(),
            Some(mut h) => {
                let bytes = conc_bytes(&call.c, cx.b);
                match guard(move || {
                    let r = h.write_all(&bytes);
                    drop(h);
                    r
                }) {
                    Err(()) => "[\"panic\"]".into(),
                    Ok(Err(_)) => "[\"err\"]".into(),
                    Ok(Ok(())) => "[\"ok\"]".into(),
                }
            }
        },
        "exists" => match guard(|| p.exists()) {
            Err(()) => "[\"panic\"]".into(),
            Ok(Err(_)) => "[\"err\"]".into(),
            Ok(Ok(b)) => json!(["ok", b]).to_string(),
        },
        "metadata" => match guard(|| p.metadata()) {
            Err(()) => "[\"panic\"]".into(),
            Ok(Err(_)) => "[\"err\"]".into(),
            Ok(Ok(m)) => json!(["ok", if m.file_type == VfsFileType::Directory { "dir" } else { "file" }, abs_len(m.len, cx.b)]).to_string(),
        },
        "read_dir" => match guard(|| p.read_dir().map(|it| it.map(|x| cx.names.abs_name(&x.filename())).collect::<BTreeSet<_>>())) {
            Err(()) => "[\"panic\"]".into(),
            Ok(Err(_)) => "[\"err\"]".into(),
            Ok(Ok(s)) => json!(["ok", s.into_iter().collect::<Vec<_>>()]).to_string(),
        },
        "read" => match guard(|| -> VfsResult<Vec<u8>> {
            let mut h = p.open_file()?;
            let mut b = vec![];
            h.read_to_end(&mut b).map_err(VfsError::from)?;
            Ok(b)
        }) {
            Err(()) => "[\"panic\"]".into(),
            Ok(Err(_)) => "[\"err\"]".into(),
            Ok(Ok(b)) => json!(["ok", abs_bytes(&b, cx.b)]).to_string(),
        },
        other => panic!("unknown concurrent call {other}"),
    }
}

/// whole-universe snapshot (not a walk: orphans must be visible): "path=kind:bytes" for present paths
pub fn snapshot(root: &VfsPath, cx: &Conc, universe: &[Vec<String>]) -> Value {
    let mut v = vec![];
    for p in universe {
        let q = cx.path(root, p);
        let k = match guard(|| q.metadata()) {
            Ok(Ok(m)) => {
                if m.file_type == VfsFileType::Directory {
                    json!({"p":p,"k":"dir","d":[]})
                } else {
                    let d = match guard(|| -> VfsResult<Vec<u8>> {
                        let mut h = q.open_file()?;
                        let mut b = vec![];
                        h.read_to_end(&mut b).map_err(VfsError::from)?;
                        Ok(b)
                    }) {
                        Ok(Ok(b)) => abs_bytes(&b, cx.b),
                        _ => vec![-1],
                    };
                    json!({"p":p,"k":"file","d":d})
                }
            }
            Ok(Err(_)) => json!({"p":p,"k":"none","d":[]}),
            Err(()) => json!({"p":p,"k":"panic","d":[]}),
        };
        v.push(k);
    }
    Value::Array(v)
}

// ------------------------------------------------------------------ cooperative scheduler
#[derive(Default)]
struct St {
    parked: BTreeMap<usize, &'static str>,
    finished: Vec<bool>,
    running: Option<usize>,
}
/// one gate per worker thread: only the chosen thread is woken (no thundering herd)
struct Gate {
    go: Mutex<bool>,
    cv: Condvar,
}
pub struct Coop {
    st: Mutex<St>,
    main_cv: Condvar,
    gates: Vec<Gate>,
}
#[cfg(feature = "hooks")]
impl Scheduler for Coop {
    fn yield_point(&self, t: usize, label: &'static str) {
        {
            let mut st = self.st.lock().unwrap();
            st.parked.insert(t, label);
            if st.running == Some(t) {
                st.running = None;
            }
            self.main_cv.notify_one();
        }
        let g = &self.gates[t];
        let mut go = g.go.lock().unwrap();
        while !*go {
            go = g.cv.wait(go).unwrap();
        }
        *go = false;
    }
}
impl Coop {
    fn new(n: usize) -> Coop {
        Coop {
            st: Mutex::new(St { finished: vec![false; n], ..Default::default() }),
            main_cv: Condvar::new(),
            gates: (0..n).map(|_| Gate { go: Mutex::new(false), cv: Condvar::new() }).collect(),
        }
    }
    fn finish(&self, t: usize) {
        let mut st = self.st.lock().unwrap();
        st.finished[t] = true;
        if st.running == Some(t) {
            st.running = None;
        }
        self.main_cv.notify_one();
    }
    /// let thread t pass its yield point (called by the scheduler with the state lock held)
    fn release(&self, st: &mut St, t: usize) {
        st.parked.remove(&t);
        st.running = Some(t);
        let g = &self.gates[t];
        *g.go.lock().unwrap() = true;
        g.cv.notify_one();
    }
}

pub struct Exec {
    pub trace: Vec<(usize, Vec<usize>, &'static str)>, // (chosen thread, enabled threads, label it was parked at)
    pub results: Vec<Vec<String>>,
    pub fin: Value,
    pub stuck: bool,
}

/// A world factory: builds the filesystem in its initial state
pub type Mk = dyn Fn() -> World + Send + Sync;

struct WorkItem {
    coop: Arc<Coop>,
    root: VfsPath,
    cx: Conc,
    prog: Vec<Call>,
    results: Arc<Mutex<Vec<Vec<String>>>>,
}
/// persistent worker threads (one per program thread) reused for every schedule of an exploration
pub struct Pool {
    txs: Vec<std::sync::mpsc::Sender<Option<WorkItem>>>,
    hs: Vec<std::thread::JoinHandle<()>>,
}
#[cfg(feature = "hooks")]
impl Pool {
    pub fn new(n: usize) -> Pool {
        let mut txs = vec![];
        let mut hs = vec![];
        for t in 0..n {
            let (tx, rx) = std::sync::mpsc::channel::<Option<WorkItem>>();
            txs.push(tx);
            hs.push(std::thread::spawn(move || {
                while let Ok(Some(w)) = rx.recv() {
                    verif_hooks::install(w.coop.clone(), t);
                    verif_hooks::yield_point("start");
                    // (a harness-side panic must not leave the scheduler waiting for this thread)
                    let body = guard(|| {
                        let mut slot = Slot::default();
                        for c in &w.prog {
                            let r = run_call(&w.root, &w.cx, c, &mut slot);
                            w.results.lock().unwrap()[t].push(r);
                        }
                        // a handle left open is dropped here (one more lock acquisition, still scheduled)
                        if let Some(h) = slot.h.take() {
                            let _ = guard(move || drop(h));
                        }
                    });
                    if body.is_err() {
                        w.results.lock().unwrap()[t].push("[\"harness-panic\"]".into());
                    }
                    verif_hooks::uninstall();
                    let coop = w.coop.clone();
                    drop(w);
                    coop.finish(t);
                }
            }));
        }
        Pool { txs, hs }
    }
    pub fn shutdown(self) {
        for tx in &self.txs {
            let _ = tx.send(None);
        }
        for h in self.hs {
            let _ = h.join();
        }
    }
}

/// run one schedule: follow `prefix`, afterwards keep running the current thread while it is enabled
/// (non-preemptive default), else the lowest enabled thread
#[cfg(feature = "hooks")]
pub fn run_schedule(pool: &Pool, mk: &Mk, cx: &Conc, universe: &[Vec<String>], progs: &Arc<Vec<Vec<Call>>>, prefix: &[usize]) -> Exec {
    run_schedule_w(pool, mk, cx, universe, progs, prefix, Duration::from_secs(3))
}

/// `watchdog`: how long no thread may make progress before the schedule counts as stuck
pub fn run_schedule_w(pool: &Pool, mk: &Mk, cx: &Conc, universe: &[Vec<String>], progs: &Arc<Vec<Vec<Call>>>, prefix: &[usize], watchdog: Duration) -> Exec {
    let w = mk();
    let root = w.root.clone();
    let n = progs.len();
    let coop = Arc::new(Coop::new(n));
    let results: Arc<Mutex<Vec<Vec<String>>>> = Arc::new(Mutex::new(vec![vec![]; n]));
    for t in 0..n {
        pool.txs[t]
            .send(Some(WorkItem { coop: coop.clone(), root: root.clone(), cx: cx.clone(), prog: progs[t].clone(), results: results.clone() }))
            .expect("worker alive");
    }
    let mut trace = vec![];
    let mut i = 0;
    let mut last: Option<usize> = None;
    let mut stuck = false;
    loop {
        let mut st = coop.st.lock().unwrap();
        loop {
            let quiescent = st.running.is_none() && (0..n).all(|t| st.finished[t] || st.parked.contains_key(&t));
            if quiescent {
                break;
            }
            let (g, to) = coop.main_cv.wait_timeout(st, watchdog).unwrap();
            st = g;
            if to.timed_out() {
                let quiescent = st.running.is_none() && (0..n).all(|t| st.finished[t] || st.parked.contains_key(&t));
                if !quiescent {
                    stuck = true;
                }
                break;
            }
        }
        if stuck {
            break;
        }
        let enabled: Vec<usize> = st.parked.keys().cloned().collect();
        if enabled.is_empty() {
            break;
        }
        let mut choice = if i < prefix.len() { prefix[i] } else { last.filter(|l| enabled.contains(l)).unwrap_or(enabled[0]) };
        if !enabled.contains(&choice) {
            choice = enabled[0];
        }
        let label = st.parked[&choice];
        trace.push((choice, enabled, label));
        coop.release(&mut st, choice);
        last = Some(choice);
        i += 1;
    }
    if stuck {
        // threads may be blocked for good (the pool is unusable afterwards; the caller replaces it)
        return Exec { trace, results: results.lock().unwrap().clone(), fin: json!([]), stuck: true };
    }
    let fin = snapshot(&root, cx, universe);
    let r = results.lock().unwrap().clone();
    drop(w);
    Exec { trace, results: r, fin, stuck: false }
}

pub struct Explored {
    pub schedules: usize,
    pub histories: BTreeMap<String, (Vec<Vec<String>>, Value, Vec<usize>, bool)>, // key -> (results, final, example schedule, stuck)
    pub max_yields: usize,
    pub truncated: bool,
    /// watchdog expiries that did not reproduce (machine load), see explore()
    pub spurious_watchdog: usize,
}

/// stateless DFS over schedules; `max_preempt` = None explores every interleaving at yield-point granularity
#[cfg(feature = "hooks")]
pub fn explore(mk: &Mk, cx: &Conc, universe: &[Vec<String>], progs: Vec<Vec<Call>>, max_preempt: Option<usize>, max_schedules: usize) -> Explored {
    let progs = Arc::new(progs);
    let mut pool = Pool::new(progs.len());
    let mut out = Explored { schedules: 0, histories: BTreeMap::new(), max_yields: 0, truncated: false, spurious_watchdog: 0 };
    let mut stack: Vec<Vec<usize>> = vec![vec![]];
    while let Some(prefix) = stack.pop() {
        if out.schedules >= max_schedules {
            out.truncated = true;
            break;
        }
        let mut ex = run_schedule(&pool, mk, cx, universe, &progs, &prefix);
        out.schedules += 1;
        if ex.stuck {
            // A watchdog expiry is only a SUSPICION (on an oversubscribed machine a runnable thread can be kept off
            // the CPU for seconds).  A deadlock is a property of the schedule: it must reproduce.  The same schedule
            // is run again on fresh workers with a ten times longer watchdog; only if it is stuck both times it counts.
            let sched: Vec<usize> = ex.trace.iter().map(|x| x.0).collect();
            let mut confirmed = true;
            for _ in 0..2 {
                std::mem::forget(std::mem::replace(&mut pool, Pool::new(progs.len())));
                let again = run_schedule_w(&pool, mk, cx, universe, &progs, &sched, Duration::from_secs(30));
                if !again.stuck {
                    confirmed = false;
                    ex = again;
                    break;
                }
            }
            if !confirmed {
                out.spurious_watchdog += 1;
            }
        }
        if ex.stuck {
            // leak the blocked workers; one deadlocked schedule per program is enough evidence
            std::mem::forget(std::mem::replace(&mut pool, Pool::new(progs.len())));
            let key = format!("{:?}|{}|{}", ex.results, ex.fin, ex.stuck);
            let sched: Vec<usize> = ex.trace.iter().map(|x| x.0).collect();
            out.histories.entry(key).or_insert((ex.results.clone(), ex.fin.clone(), sched, true));
            out.truncated = true;
            break;
        }
        out.max_yields = out.max_yields.max(ex.trace.len());
        let sched: Vec<usize> = ex.trace.iter().map(|x| x.0).collect();
        let key = format!("{:?}|{}|{}", ex.results, ex.fin, ex.stuck);
        out.histories.entry(key).or_insert((ex.results.clone(), ex.fin.clone(), sched.clone(), ex.stuck));
        // branch on every decision point after the prefix
        for j in prefix.len()..ex.trace.len() {
            // preemptions used by sched[..j]
            let mut pre = 0;
            for k in 1..j {
                if sched[k] != sched[k - 1] && ex.trace[k].1.contains(&sched[k - 1]) {
                    pre += 1;
                }
            }
            for &alt in &ex.trace[j].1 {
                if alt != ex.trace[j].0 {
                    let cost = if j > 0 && alt != sched[j - 1] && ex.trace[j].1.contains(&sched[j - 1]) { 1 } else { 0 };
                    if let Some(mp) = max_preempt {
                        if pre + cost > mp {
                            continue;
                        }
                    }
                    let mut p: Vec<usize> = sched[..j].to_vec();
                    p.push(alt);
                    stack.push(p);
                }
            }
        }
    }
    pool.shutdown();
    out
}

/// all global call orders that respect each thread's program order
pub fn call_orders(lens: &[usize]) -> Vec<Vec<usize>> {
    fn rec(lens: &[usize], idx: &mut Vec<usize>, cur: &mut Vec<usize>, out: &mut Vec<Vec<usize>>) {
        if (0..lens.len()).all(|t| idx[t] == lens[t]) {
            out.push(cur.clone());
            return;
        }
        for t in 0..lens.len() {
            if idx[t] < lens[t] {
                idx[t] += 1;
                cur.push(t);
                rec(lens, idx, cur, out);
                cur.pop();
                idx[t] -= 1;
            }
        }
    }
    let mut out = vec![];
    rec(lens, &mut vec![0; lens.len()], &mut vec![], &mut out);
    out
}

/// the sequential reference: every call order executed one call at a time on a fresh world (measured
/// on the code under test, no scheduler installed)
pub fn sequential_outcomes(mk: &Mk, cx: &Conc, universe: &[Vec<String>], progs: &[Vec<Call>]) -> Vec<Value> {
    let lens: Vec<usize> = progs.iter().map(|p| p.len()).collect();
    let mut seen = BTreeSet::new();
    let mut out = vec![];
    for order in call_orders(&lens) {
        let w = mk();
        let mut slots: Vec<Slot> = (0..progs.len()).map(|_| Slot::default()).collect();
        let mut idx = vec![0usize; progs.len()];
        let mut res: Vec<Vec<String>> = vec![vec![]; progs.len()];
        for &t in &order {
            let r = run_call(&w.root, cx, &progs[t][idx[t]], &mut slots[t]);
            res[t].push(r);
            idx[t] += 1;
        }
        for s in slots.iter_mut() {
            if let Some(h) = s.h.take() {
                let _ = guard(move || drop(h));
            }
        }
        let fin = snapshot(&w.root, cx, universe);
        let key = format!("{:?}|{}", res, fin);
        if seen.insert(key) {
            out.push(json!({"order":order,"results":crate::concrun::parse_results(&res),"final":fin}));
        }
    }
    out
}
