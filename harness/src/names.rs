//! Concretisation tables (DESIGN §5): abstract name ids <-> component strings, byte symbols <-> bytes,
//! time ticks <-> SystemTime.  Pure data tables, no filesystem semantics.
use std::collections::HashMap;
use std::time::{Duration, SystemTime, UNIX_EPOCH};

#[derive(Clone, Debug)]
pub struct NameMap {
    pub id: String,
    fwd: HashMap<String, String>,
    back: HashMap<String, String>,
}

pub const ABSTRACT_NAMES: [&str; 6] = ["a", "b", "c", "d", "e", "f"];
/// names used for altroot directories / canaries in underlying filesystems: outside every universe
pub const AUX_NAMES: [&str; 6] = ["zr", "zs", "zt", "zu", "zc", "zd"];

impl NameMap {
    pub fn new(id: &str) -> NameMap {
        let generated: Vec<String>;
        let table: Vec<&str> = if let Some(seed) = id.strip_prefix("rnd") {
            generated = random_names(seed.parse().unwrap_or(1));
            generated.iter().map(|s| s.as_str()).collect()
        } else {
            Self::fixed_table(id)
        };
        Self::from_table(id, table)
    }
    fn fixed_table(id: &str) -> Vec<&'static str> {
        match id {
            "ascii" => vec!["a", "b", "c", "d", "e", "f"],
            // siblings that are string prefixes of each other (MemoryFS lists by string prefix)
            "prefix" => vec!["a", "ab", "a.b", "abc", "a-", "a b"],
            // sibling = directory name + a character that sorts BEFORE '/' (an ordered map puts it between
            // the directory and the directory's children)
            "prefix2" => vec!["a", "a.b", "a-", "a b", "ab", "a+b"],
            // ordinary names that merely LOOK like the overlay's bookkeeping names (".whiteout", "*_wo" are reserved;
            // these are not)
            "nearwo" => vec![".whiteout.md", ".whiteouts", "a_wo.txt", "_wox", ".whiteou", "wo_"],
            // dots in every position (".." inside a component is an ordinary name, only "." and ".." are special)
            "dotted" => vec!["..a", "x..tar.gz", "a.", "...", ".hidden", ".b."],
            "dotted2" => vec![".hidden", "a..", "x.tar.gz", "....", "b.c", ". ."],
            "multi" => vec!["ä", "日本", "a b", "🦀", "é\u{301}", "ß_wö"],
            // the names of the embedded fixture folder (harness/fixtures/emb): dotted, prefix-sharing, multi-byte, with a space
            "fixture" => vec!["a.txt", "a.txt.dir", "ä.bin", "sub dir", ".hidden", "empty"],
            "long" => vec![],
            _ => panic!("unknown name map {id}"),
        }
    }
    fn from_table(id: &str, table: Vec<&str>) -> NameMap {
        let mut fwd = HashMap::new();
        let mut back = HashMap::new();
        for (i, a) in ABSTRACT_NAMES.iter().enumerate() {
            let c = if id == "long" {
                std::iter::repeat(*a).take(200).collect::<String>()
            } else {
                table[i].to_string()
            };
            fwd.insert(a.to_string(), c.clone());
            back.insert(c, a.to_string());
        }
        for a in AUX_NAMES.iter() {
            fwd.insert(a.to_string(), a.to_string());
            back.insert(a.to_string(), a.to_string());
        }
        NameMap { id: id.to_string(), fwd, back }
    }
    pub fn conc_name(&self, a: &str) -> String {
        self.fwd.get(a).cloned().unwrap_or_else(|| panic!("no concrete name for {a}"))
    }
    /// abstract path (name ids) -> relative path string "x/y" ("" for the root)
    pub fn conc_path(&self, p: &[String]) -> String {
        p.iter().map(|n| self.conc_name(n)).collect::<Vec<_>>().join("/")
    }
    /// concrete component -> abstract id, or "!<raw>" for a foreign name
    pub fn abs_name(&self, c: &str) -> String {
        self.back.get(c).cloned().unwrap_or_else(|| format!("!{c}"))
    }
    /// "/x/y" or "" -> abstract path; None if it does not start with '/' (and is not "")
    pub fn abs_path(&self, s: &str) -> Option<Vec<String>> {
        if s.is_empty() {
            return Some(vec![]);
        }
        if !s.starts_with('/') {
            return None;
        }
        Some(s[1..].split('/').map(|c| self.abs_name(c)).collect())
    }
}

/// Seeded name table "rnd<seed>": six distinct component names built from fragments that are awkward for
/// string-based path handling (prefix relations, characters sorting around '/', dots, spaces, multi-byte,
/// upper/lower case pairs, backslash, percent).  Never ".", "..", empty, containing '/', NUL, or one of the
/// overlay's reserved names (".whiteout", "*_wo").  Each later name is, with probability 1/2, an earlier
/// name plus a suffix, so prefix relations between siblings are frequent.
pub fn random_names(seed: u64) -> Vec<String> {
    const FRAG: [&str; 22] = ["a", "b", "A", ".", "-", " ", "+", "_", "0", "~", "%", "\\", ":", "ä", "日", "!", "#", "..", "a.", ".a", "wo", "é\u{301}"];
    let mut x = seed.wrapping_mul(6364136223846793005).wrapping_add(1442695040888963407);
    let mut next = move |n: usize| {
        x = x.wrapping_mul(6364136223846793005).wrapping_add(1442695040888963407);
        ((x >> 33) as usize) % n
    };
    let mut out: Vec<String> = vec![];
    let mut guard = 0;
    while out.len() < 6 {
        guard += 1;
        let mut s = String::new();
        if !out.is_empty() && next(2) == 0 && guard < 1000 {
            s.push_str(&out[next(out.len())]);
            s.push_str(FRAG[next(FRAG.len())]);
        } else {
            for _ in 0..(1 + next(3)) {
                s.push_str(FRAG[next(FRAG.len())]);
            }
        }
        let reserved = s == "." || s == ".." || s.is_empty() || s.ends_with("_wo") || s == ".whiteout" || s.trim() != s || s.len() > 60;
        if !reserved && !out.contains(&s) {
            out.push(s);
        }
    }
    out
}

/// byte symbols 0..3 -> B bytes each. 0 = zero fill; 1 = ASCII letters; 2, 3 = bytes that are never valid UTF-8
pub fn pattern(sym: i64, j: usize) -> u8 {
    match sym {
        0 => 0,
        1 => b'a' + (j % 23) as u8,
        2 => {
            if j % 2 == 0 {
                0xFF
            } else {
                0xFE
            }
        }
        3 => 0x80 + (j % 64) as u8,
        _ => panic!("bad symbol {sym}"),
    }
}
pub fn conc_bytes(syms: &[i64], b: usize) -> Vec<u8> {
    let mut v = Vec::with_capacity(syms.len() * b);
    for s in syms {
        for j in 0..b {
            v.push(pattern(*s, j));
        }
    }
    v
}
/// bytes -> symbols; [-1] when the bytes are not a concatenation of whole pattern blocks
pub fn abs_bytes(bytes: &[u8], b: usize) -> Vec<i64> {
    if bytes.len() % b != 0 {
        return vec![-1];
    }
    let mut out = vec![];
    'blk: for blk in bytes.chunks(b) {
        for s in 0..4i64 {
            if blk.iter().enumerate().all(|(j, x)| *x == pattern(s, j)) {
                // with B = 1 symbol patterns are distinct single bytes; with larger B the first match wins
                out.push(s);
                continue 'blk;
            }
        }
        return vec![-1];
    }
    out
}
pub fn abs_len(len: u64, b: usize) -> i64 {
    if len % (b as u64) == 0 {
        (len / b as u64) as i64
    } else {
        -1
    }
}

/// tick table (DESIGN §5.3)
pub fn tick(i: usize) -> SystemTime {
    match i % 8 {
        0 => UNIX_EPOCH,
        1 => UNIX_EPOCH + Duration::new(1, 1),
        2 => UNIX_EPOCH + Duration::new(4_102_444_800, 0), // 2100-01-01
        3 => UNIX_EPOCH + Duration::new(13_569_465_600, 999_999_999), // 2400
        4 => UNIX_EPOCH + Duration::new(1_000_000_000, 500_000_000),
        5 => UNIX_EPOCH - Duration::new(86_400, 0), // 1969-12-31
        6 => UNIX_EPOCH + Duration::new(1_700_000_000, 123_456_789),
        _ => UNIX_EPOCH + Duration::new(946_684_800, 1),
    }
}
pub fn time_str(t: Option<SystemTime>) -> String {
    match t {
        None => "none".into(),
        Some(t) => match t.duration_since(UNIX_EPOCH) {
            Ok(d) => format!("{}.{:09}", d.as_secs(), d.subsec_nanos()),
            Err(e) => {
                let d = e.duration();
                format!("-{}.{:09}", d.as_secs(), d.subsec_nanos())
            }
        },
    }
}
