#!/bin/bash
# offline setup: build the harness against /repo and pre-compute the artefacts that depend on the
# specification only (model checking results and the emitted transition systems)
set -e
cd "$(dirname "$0")"
mkdir -p work evidence
(cd harness && cargo build --offline --features hooks 2>&1 | tail -3)
python3 - <<'PY'
import sys, os
sys.path.insert(0, os.getcwd())
from vlib import *
import groups as G
for inst, (mod, cfg) in G.LTS_INSTANCES.items():
    r = run_mc(mod, cfg)
    assert r['ok'], r
    ensure_lts(mod, cfg + '_emit')
try:
    run_proofs()          # informational (unbounded Level-A theorems); cached for the checks
except Exception as ex:
    print('proofs skipped:', ex)
print('setup ok')
PY
