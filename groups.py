"""Run groups (which drivers produce which traces), property table, verdict logic."""
import os, json, time, shutil, glob, hashlib
from vlib import *

# ----------------------------------------------------------------------------- run groups
# every run: dict(args for `harness walk`) ; the LTS comes from MC_Tree_small unless stated


def W(cfg, mode, names='ascii', b=1, frac=1.0, walks=0, length=0, split=False, light=False, lts='small', max_events=10**9, lower_only=False, ops=''):
    return dict(kind='walk', cfg=cfg, mode=mode, names=names, b=b, frac=frac, walks=walks, len=length, split=split, light=light, lts=lts,
                max_events=max_events, lower_only=lower_only, ops=ops)


def NM(names, seed, i):
    """'rnd' = a seeded table of awkward component names, different for every run and seed"""
    return 'rnd%d' % (seed * 1000 + i) if names == 'rnd' else names


def group_runs(g, tier):
    q = tier == 'quick'
    if g == 'tree':
        runs = [
            W('mem', 'edges', frac=0.10 if q else 1.0),
            W('mem', 'paths', frac=0.10 if q else 1.0, length=2),
            W('mem', 'random', walks=40 if q else 2000, length=40),
            W('mem', 'random', names='prefix', walks=20 if q else 500, length=40),
            W('mem', 'random', names='rnd', walks=10 if q else 300, length=40), W('mem', 'random', names='rnd', lts='deep', walks=8 if q else 300, length=40),
            W('phys', 'random', names='rnd', walks=6 if q else 200, length=40),
            # copies followed by writes to the copy or the original (a native copy that aliases instead of copying)
            W('phys', 'random', walks=12 if q else 300, length=40, ops='copy_file,append_file,create_file,move_file,remove_file,create_dir'),
            W('phys', 'random', walks=6 if q else 150, length=40, b=4096, names='dotted', ops='copy_file,copy_dir,append_file,create_file,create_dir'),
            # the transfers (native fast paths of PhysicalFS: copy, rename) with every kind of source and destination
            W('phys', 'edges', frac=0.04 if q else 1.0, ops='copy_file,move_file,copy_dir,move_dir'), W('phys', 'edges', lts='deep', frac=0.04 if q else 1.0, names='prefix2', ops='copy_file,move_file,copy_dir,move_dir'),
            W('mem', 'edges', lts='chain', frac=0.25 if q else 1.0), W('phys', 'edges', lts='chain', frac=0.1 if q else 1.0, names='dotted'),
            W('mem', 'edges', lts='wide', frac=0.03 if q else 1.0, names='prefix2'), W('phys', 'random', lts='wide', walks=6 if q else 300, length=40, names='multi'),
            W('mem', 'random', names='prefix2', walks=12 if q else 400, length=40), W('mem', 'random', names='nearwo', walks=6 if q else 200, length=40),
            # files larger than 64 KiB and not a multiple of it (two symbols of 40 000 bytes): chunked copy loops
            W('mem', 'random', b=40000, walks=6 if q else 100, length=30, ops='create_file,append_file,copy_file,move_file,remove_file,create_dir'),
            W('phys', 'random', b=40000, walks=4 if q else 60, length=30, ops='create_file,append_file,copy_file,move_file,remove_file,create_dir'), W('mem', 'random', lts='deep', names='prefix2', walks=8 if q else 300, length=40),
            W('mem', 'random', names='dotted', walks=20 if q else 500, length=40),
            W('mem', 'random', names='multi', b=3, walks=20 if q else 500, length=40),
            W('mem', 'random', names='long', b=4096, walks=6 if q else 100, length=30),
            W('phys', 'edges', frac=0.03 if q else 1.0),
            W('phys', 'random', walks=20 if q else 1000, length=40),
            W('phys', 'random', names='multi', b=8193, walks=6 if q else 100, length=30),
            W('phys', 'random', names='dotted', walks=10 if q else 300, length=40),
            W('phys', 'random', names='prefix', walks=10 if q else 300, length=40),
            W('mem', 'edges', lts='deep', frac=0.15 if q else 1.0),
            W('mem', 'random', lts='deep', names='prefix', walks=15 if q else 500, length=40),
            W('phys', 'edges', lts='deep', frac=0.03 if q else 1.0),
        ]
        if not q:
            runs += [W('mem', 'random', names='ascii', b=65537, walks=40, length=30),
                     W('phys', 'random', names='long', b=21846, walks=40, length=30),
                     W('mem', 'edges', names='prefix', frac=0.3), W('phys', 'edges', names='multi', frac=0.3)]
        return runs
    if g == 'alt':
        runs = [
            W('alt(zr,mem)', 'edges', frac=0.03 if q else 1.0),
            W('alt(zr,mem)', 'random', walks=15 if q else 500, length=40),
            W('alt(zr/zs,phys)', 'edges', frac=0.01 if q else 0.5),
            W('alt(zr/zs,phys)', 'random', names='dotted', walks=8 if q else 300, length=40),
            W('alt(/,mem)', 'random', walks=10 if q else 300, length=40),
            W('alt(zr/zs/zt,mem)', 'random', names='prefix', walks=10 if q else 300, length=40),
            W('alt(zr,phys)', 'random', walks=8 if q else 200, length=40, ops='copy_file,append_file,create_file,move_file,remove_file,create_dir'),
            W('alt(zr,phys)', 'edges', frac=0.03 if q else 1.0, names='prefix', ops='copy_file,move_file,copy_dir,move_dir'), W('alt(zr,phys)', 'edges', frac=0.02 if q else 1.0, names='prefix2', ops='copy_file,move_file,copy_dir,move_dir'),
            W('alt(zr/zs,mem)', 'edges', lts='chain', frac=0.15 if q else 1.0), W('alt(zr,phys)', 'random', lts='chain', walks=5 if q else 200, length=40),
            W('alt(zr,mem)', 'random', lts='wide', walks=6 if q else 300, length=40),
            W('alt(zr,mem)', 'random', names='prefix2', walks=8 if q else 300, length=40), W('alt(zr/zs,mem)', 'random', names='rnd', walks=8 if q else 300, length=40),
            W('alt(zr,phys)', 'random', names='rnd', walks=5 if q else 200, length=40),
            W('alt(zr,alt(zs,mem))', 'random', names='multi', walks=10 if q else 300, length=40),
            W('alt(zr,ovl(mem,mem))', 'random', walks=10 if q else 300, length=40),
        ]
        return runs
    if g == 'ovl':
        runs = [
            W('ovl(mem,mem)', 'edges', frac=0.05 if q else 1.0, split=True),
            W('ovl(mem,mem)', 'edges', frac=0.05 if q else 1.0, split=True, ops='create_dir,create_file,append_file,remove_file,remove_dir,create_dir_all,remove_dir_all,set_time'),
            # the non-transfer operations (a quarter of the edges; transfers dominate a uniform sample) on states whose
            # entries all live in lower layers: wrong-typed parents and targets served from below
            W('ovl(mem,mem)', 'edges', frac=0.07 if q else 1.0, split=True, lower_only=True, ops='create_dir,create_file,append_file,remove_file,remove_dir,create_dir_all,remove_dir_all,set_time'),
            W('ovl(mem,mem,mem)', 'edges', lts='deep', frac=0.08 if q else 1.0, split=True, lower_only=True, ops='create_dir,create_file,append_file,remove_file,remove_dir,create_dir_all,remove_dir_all'),
            W('ovl(mem,mem)', 'random', walks=30 if q else 2000, length=40, split=True),
            W('ovl(mem)', 'random', walks=8 if q else 300, length=40),
            W('ovl(mem,mem,mem)', 'random', walks=15 if q else 1000, length=40, split=True),
            W('ovl(mem,mem,mem)', 'edges', frac=0.01 if q else 0.3, split=True),
            W('ovl(phys,phys)', 'random', walks=8 if q else 500, length=40, split=True),
            W('ovl(mem,phys)', 'random', names='dotted', walks=6 if q else 300, length=40, split=True),
            W('ovl(alt(zu,mem),mem)', 'random', names='prefix', walks=8 if q else 300, length=40, split=True),
            W('ovl(mem,mem)', 'edges', lts='chain', frac=0.3 if q else 1.0, split=True), W('ovl(mem,mem,mem)', 'random', lts='chain', walks=10 if q else 400, length=40, split=True),
            W('ovl(mem,mem)', 'edges', lts='wide', frac=0.02 if q else 1.0, split=True), W('ovl(mem,phys)', 'random', lts='wide', walks=5 if q else 200, length=40, split=True),
            W('ovl(mem,mem)', 'random', lts='chain', walks=10 if q else 400, length=40, split=True, lower_only=True),
            W('ovl(mem,mem)', 'random', names='prefix2', walks=8 if q else 300, length=40, split=True),
            W('ovl(mem,mem)', 'random', b=40000, walks=6 if q else 100, length=30, split=True, lower_only=True, ops='create_file,append_file,copy_file,move_file,set_time,create_dir'),
            W('ovl(mem,mem)', 'random', names='nearwo', walks=10 if q else 300, length=40, split=True), W('ovl(mem,mem,mem)', 'edges', names='nearwo', frac=0.01 if q else 0.3, split=True),
            W('ovl(phys,mem)', 'random', names='nearwo', lts='deep', walks=5 if q else 200, length=40, split=True),
            W('ovl(mem,mem)', 'random', names='rnd', walks=8 if q else 300, length=40, split=True), W('ovl(phys,mem)', 'random', names='rnd', walks=5 if q else 200, length=40, split=True),
            W('ovl(ovl(mem,mem),mem)', 'random', names='multi', walks=8 if q else 300, length=40, split=True),
            W('ovl(mem,mem)', 'edges', lts='deep', frac=0.08 if q else 1.0, split=True),
            W('ovl(mem,mem,mem)', 'random', lts='deep', walks=15 if q else 1000, length=40, split=True),
            # many different initial layer contents (shadowed files, directories split across layers, type conflicts), short walks
            W('ovl(mem,mem)', 'random', lts='deep', walks=150 if q else 3000, length=3, split=True),
            W('ovl(mem,mem,mem)', 'random', lts='deep', names='prefix', walks=100 if q else 3000, length=3, split=True),
            W('ovl(mem,mem,mem,mem)', 'random', lts='small', walks=60 if q else 2000, length=3, split=True),
            # layers that are sibling directories of ONE filesystem instance
            W('ovlsh(2)', 'random', walks=25 if q else 1500, length=30, split=True), W('ovlsh(3)', 'edges', lts='deep', frac=0.04 if q else 1.0, split=True),
            # ... and layers that are plain sub-paths of one VfsPath (OverlayFS::new(&[m.join("zl1"), m.join("zl2")]))
            W('ovlsub(2)', 'random', walks=25 if q else 1500, length=30, split=True), W('ovlsub(3)', 'edges', frac=0.01 if q else 0.5, split=True),
        ]
        if not q:
            runs += [W('ovl(mem,mem,mem,mem)', 'random', walks=500, length=40, split=True),
                     W('ovl(phys,mem)', 'random', walks=300, length=40, split=True),
                     W('ovl(phys,phys)', 'edges', frac=0.2, split=True)]
        return runs
    if g == 'ovl_cycles':
        runs = []
        for cfg, n in (('ovl(mem,mem)', 60), ('ovl(mem,mem,mem)', 30), ('ovl(mem,mem,mem,mem)', 15), ('ovl(phys,phys)', 10), ('ovl(mem,alt(zu,mem))', 10)):
            runs.append(W(cfg, 'cycles', lts='deep', walks=n if q else n * 40, split=True, lower_only=True))
            runs.append(W(cfg, 'cycles', lts='small', names='prefix', walks=n // 2 if q else n * 20, split=True, lower_only=True))
        runs.append(W('ovl(mem,mem)', 'cycles', lts='deep', names='dotted', walks=20 if q else 800, split=True))
        return runs
    if g == 'handles':
        def H(cfg, names='ascii', b=1, walks=60, length=60, lower=False, depth=1, extreme=True, inst='MC_Handles_q'):
            return dict(kind='handles', cfg=cfg, names=names, b=b, walks=walks, len=length, lower=lower, depth=depth, extreme=extreme, inst=inst, tspec='Trace_Handles')
        k = 1 if q else 12
        runs = [H('mem', walks=300 * k), H('phys', walks=120 * k), H('mem', b=4096, names='multi', walks=60 * k), H('phys', b=8193, names='dotted', walks=30 * k),
                H('alt(zr,mem)', walks=30 * k, depth=2), H('alt(zr/zs,phys)', walks=20 * k, b=3),
                H('ovl(mem,mem)', walks=60 * k), H('ovl(mem,mem)', walks=60 * k, lower=True), H('ovl(mem,mem,mem)', walks=30 * k, lower=True, depth=2, b=2),
                H('ovl(phys,phys)', walks=20 * k, lower=True), H('ovl(phys,mem)', walks=20 * k, lower=True, b=8192, names='prefix'),
                H('alt(zr,ovl(mem,mem))', walks=20 * k, depth=2), H('ovl(alt(zu,mem),mem)', walks=20 * k, lower=True)]
        if not q:
            for b in (2, 2731, 8191, 16385, 21846, 65537):
                runs += [H('mem', b=b, walks=60), H('phys', b=b, walks=40), H('ovl(mem,phys)', b=b, walks=30, lower=True)]
        return runs
    if g == 'xfer':
        cfgs = ['mem', 'phys', 'alt(zr,mem)', 'ovl(mem,mem)'] if q else ['mem', 'phys', 'alt(zr,mem)', 'alt(zr/zs,phys)', 'ovl(mem,mem)', 'ovl(phys,phys)', 'ovl(mem,mem,mem)', 'alt(zr,ovl(mem,mem))']
        runs = []
        k = 0
        for c1 in cfgs:
            for c2 in cfgs:
                k += 1
                heavy = ('phys' in c1) + ('phys' in c2)
                runs.append(dict(kind='tree2', cfg1=c1, cfg2=c2, names=['ascii', 'prefix', 'dotted', 'multi'][k % 4], b=[1, 1, 4096, 8193][k % 4] if q else [1, 2731, 8193, 21846][k % 4],
                                 frac=(0.004 if heavy else 0.008) if q else (0.04 if heavy else 0.10), inst='MC_Tree2_q', tspec='Trace_Tree2'))
        return runs
    if g == 'async':
        k = 1 if q else 20
        def H(cfg, names='ascii', b=1, walks=40, depth=1, nz=False):
            return dict(kind='handles', cfg=cfg, names=names, b=b, walks=walks, len=60, lower=False, depth=depth, extreme=True, inst='MC_Handles_q', tspec='Trace_Handles', no_zero_read=nz)
        return [
            W('async:mem', 'edges', frac=0.04 if q else 1.0), W('async:mem', 'random', names='prefix', walks=15 * k, length=40), W('async:mem', 'random', names='prefix2', walks=10 * k, length=40), W('async:ovl(mem,mem)', 'random', names='nearwo', walks=8 * k, length=40, split=True), W('async:mem', 'edges', lts='chain', frac=0.2 if q else 1.0),
            W('async:ovl(mem,mem)', 'random', lts='chain', walks=6 * k, length=40, split=True), W('async:mem', 'random', lts='wide', walks=6 * k, length=40), W('async:mem', 'random', names='rnd', walks=8 * k, length=40),
            W('async:phys', 'edges', frac=0.015 if q else 0.5), W('async:phys', 'edges', frac=0.03 if q else 1.0, ops='copy_file,move_file,copy_dir,move_dir'), W('async:phys', 'random', names='multi', b=8193, walks=6 * k, length=30),
            W('async:alt(zr,mem)', 'random', names='dotted', walks=12 * k, length=40), W('async:alt(zr/zs,phys)', 'random', walks=6 * k, length=30),
            W('async:ovl(mem,mem)', 'edges', frac=0.02 if q else 0.5, split=True), W('async:ovl(mem,mem)', 'edges', frac=0.06 if q else 1.0, split=True, ops='create_dir,create_file,append_file,remove_file,remove_dir,create_dir_all,remove_dir_all,set_time'), W('async:ovl(mem,mem)', 'edges', frac=0.04 if q else 1.0, split=True, lower_only=True, ops='create_dir,create_file,append_file,remove_file,remove_dir,create_dir_all,remove_dir_all,set_time'), W('async:ovl(mem,mem)', 'random', walks=15 * k, length=40, lts='deep', split=True),
            W('async:ovl(mem,mem,mem)', 'random', walks=8 * k, length=40, split=True), W('async:ovl(phys,phys)', 'random', walks=5 * k, length=30, split=True),
            W('async:alt(zr,ovl(mem,mem))', 'random', walks=8 * k, length=40), W('async:ovl(alt(zu,mem),mem)', 'random', names='prefix', walks=8 * k, length=40, split=True),
            dict(kind='awalk', cfgs='mem;ovl(mem,mem);alt(zr,mem);phys;ovl(phys,mem)', trees=6 * k, dense=10, pair_frac=0.1 if q else 1.0, tspec='Trace_WalkAsync'),
            H('async:mem', walks=150 * k), H('async:mem', b=4096, names='multi', walks=30 * k, depth=2), H('async:ovl(mem,mem)', walks=30 * k), H('async:alt(zr,mem)', walks=20 * k, depth=2),
            H('async:phys', walks=30 * k, nz=True), H('async:phys', b=8193, walks=8 * k, nz=True), H('async:ovl(phys,phys)', walks=10 * k, nz=True),
            H('async:phys', walks=4, nz=False),   # keeps the known finding (zero-length read on async physical handles) under observation
            dict(kind='twowriters', cfgs='mem;ovl(mem,mem);alt(zr,mem);ovl(mem,mem,mem)', scripts=60 * k, b=1, tspec='Trace_TwoWriters'),
            dict(kind='twowriters', cfgs='mem;ovl(mem,mem)', scripts=20 * k, b=4097, tspec='Trace_TwoWriters'),
        ]
    if g == 'hostile':
        return [dict(kind='hostile', cfgs='alt(zr,mem);alt(zr/zs,phys);alt(zr,alt(zs,mem));alt(zr/zs/zt,ovl(mem,mem));phys;alt(zr,phys);alt(zr,ovl(phys,mem))', sample=150 if q else 5000, tspec='Trace_Confine')]
    if g == 'lockstep':
        k = 1 if q else 25
        return [W('lock(mem|phys)', 'random', walks=40 * k, length=40), W('lock(mem|phys)', 'random', names='dotted', b=3, walks=15 * k, length=40),
                W('lock(mem|phys)', 'random', names='multi', b=8193, walks=6 * k, length=30), W('lock(mem|phys)', 'edges', frac=0.02 if q else 1.0),
                W('lock(mem|phys)', 'edges', lts='deep', names='prefix', frac=0.05 if q else 1.0), W('lock(phys|mem)', 'random', walks=10 * k, length=40)]
    if g == 'hostiledir':
        return [dict(kind='hostiledir', cfgs='phys;alt(zr,phys);ovl(phys,mem);ovl(mem,phys);alt(zr/zs,ovl(phys,phys))', tspec='Trace_Confine'),
                dict(kind='rootops', cfgs='mem;phys;alt(zr,mem);alt(zr/zs,phys);alt(zr,alt(zs,mem));alt(zr,phys);ovl(mem,mem);ovl(phys,mem);ovl(mem,phys);ovl(mem,mem,mem);alt(zr,ovl(mem,mem));ovl(ovl(mem,mem),mem);ovlsh(2);ovlsub(2)', tspec='Trace_Confine'),
                dict(kind='ahostile', cfgs='mem;phys;alt(zr,mem);alt(zr,phys);ovl(mem,mem);ovl(phys,mem);ovl(mem,phys);ovl(mem,mem,mem);alt(zr,ovl(mem,mem));ovlsh(2);ovlsub(2)', tspec='Trace_Confine')]
    if g == 'times':
        T = 'set_time,append_file,create_file,create_dir,remove_file'
        k = 1 if q else 25
        return [W('mem', 'random', walks=30 * k, length=50, ops=T), W('phys', 'random', walks=20 * k, length=50, ops=T),
                W('alt(zr,mem)', 'random', walks=15 * k, length=50, ops=T), W('alt(zr/zs,phys)', 'random', walks=10 * k, length=50, ops=T, names='dotted'),
                W('ovl(mem,mem)', 'random', walks=25 * k, length=50, ops=T, split=True), W('ovl(mem,mem)', 'random', walks=15 * k, length=40, ops=T, split=True, lower_only=True, lts='deep'),
                W('ovl(phys,phys)', 'random', walks=10 * k, length=40, ops=T, split=True), W('ovl(mem,phys)', 'random', walks=10 * k, length=40, ops=T, split=True, lower_only=True),
                W('ovl(mem,mem,mem)', 'random', walks=10 * k, length=40, ops=T, split=True, lower_only=True),
                W('ovlsh(2)', 'random', walks=15 * k, length=40, ops=T, split=True, lower_only=True),
                W('ovlsub(2)', 'random', walks=15 * k, length=40, ops=T, split=True, lower_only=True)]
    if g == 'afaults':
        k = 1 if q else 12
        cfgs = [('async:fault(mem)', 30), ('async:ovl(fault(mem),mem)', 25), ('async:ovl(mem,fault(mem))', 25), ('async:alt(zr,fault(mem))', 25), ('async:alt(zr,ovl(fault(mem),mem))', 15)]
        return [dict(kind='faults', cfg=c, pairs=n * k, split=False, names=['ascii', 'prefix', 'dotted'][i % 3], lts='small' if i % 2 == 0 else 'deep', tspec='Trace_Tree') for i, (c, n) in enumerate(cfgs)]
    if g == 'emb':
        return [dict(kind='emb', tspec='Trace_Tree')] + [dict(kind='embdyn', names=nm, tspec='Trace_Tree') for nm in (('ascii', 'prefix2', 'multi') if q else ('ascii', 'prefix', 'prefix2', 'dotted', 'multi', 'rnd'))]
    if g == 'faults':
        k = 2 if q else 20
        cfgs = [('fault(mem)', 60, False), ('alt(zr,fault(mem))', 40, False), ('ovl(fault(mem),mem)', 40, True), ('ovl(mem,fault(mem))', 60, True),
                ('ovl(fault(mem),mem,mem)', 20, True), ('ovl(mem,mem,fault(mem))', 30, True), ('alt(zr,ovl(fault(mem),mem))', 15, True), ('ovl(alt(zu,fault(mem)),mem)', 15, True)]
        runs = [dict(kind='faults', cfg=c, pairs=n * k, split=sp, names=['ascii', 'prefix', 'dotted'][i % 3], lts='small' if i % 2 == 0 else 'deep', tspec='Trace_Tree') for i, (c, n, sp) in enumerate(cfgs)]
        return runs
    if g in ('conc16', 'conc17'):
        return [dict(kind='conc', prop='C16' if g == 'conc16' else 'C17', tspec='Trace_Lin')]
    if g == 'join':
        return [dict(kind='join', inst='MC_Join_q' if q else 'MC_Join_t', random=3000 if q else 200000, chains=3000 if q else 100000, tspec='Trace_Join')]
    raise ToolError('unknown group ' + g)


LTS_INSTANCES = {'small': ('MC_Tree_small', 'MC_Tree_small'), 'deep': ('MC_Tree_deep', 'MC_Tree_deep'),
                 'chain': ('MC_Tree_chain', 'MC_Tree_chain'), 'wide': ('MC_Tree_wide', 'MC_Tree_wide')}


def run_group(g, tier, seed, use_cache=True):
    key = hashlib.sha256(json.dumps([g, tier, seed, repo_hash(), spec_hash(), harness_hash()]).encode()).hexdigest()[:16]
    gdir = '%s/groups/%s-%s-%d-%s' % (WORK, g, tier, seed, key)
    rf = gdir + '/result.json'
    if use_cache and os.path.exists(rf):
        r = json.load(open(rf))
        r['cached'] = True
        log('group %s: cached (%d events)' % (g, r['stats']['events']))
        return r
    for old in glob.glob('%s/groups/%s-%s-*' % (WORK, g, tier)):
        shutil.rmtree(old, ignore_errors=True)
    os.makedirs(gdir + '/traces', exist_ok=True)
    t0 = time.time()
    runs = group_runs(g, tier)
    mcs = {}
    ltsfiles = {}
    summaries = []
    if g in ('tree', 'xfer'):
        # Level B: the composite loops of the path layer refine the atomic Level-A composites
        mc = run_mc('MC_PathLayer_q', 'MC_PathLayer_q')
        if not mc['ok']:
            raise ToolError('model checking of MC_PathLayer_q failed:\n%s' % mc.get('tail', ''))
        mcs['MC_PathLayer_q'] = mc
    if g == 'alt':
        # Level B: re-rooting law of the contract (AltrootFS = translation by P)
        mc = run_mc('MC_Altroot_q', 'MC_Altroot_q')
        if not mc['ok']:
            raise ToolError('model checking of MC_Altroot_q failed:\n%s' % mc.get('tail', ''))
        mcs['MC_Altroot_q'] = mc
    if g in ('ovl', 'ovl_cycles'):
        # Level B: the overlay algorithm refines Level A for every initial content of two layers
        for mname in ('MC_Overlay_q', 'MC_Overlay_3'):
            mc = run_mc(mname, mname, workers=16)
            if not mc['ok']:
                raise ToolError('model checking of %s failed:\n%s' % (mname, mc.get('tail', '')))
            mcs[mname] = mc
    for i, r in enumerate(runs):
        out = '%s/traces/r%02d' % (gdir, i)
        t1 = time.time()
        if r['kind'] == 'walk':
            inst = r.get('lts', 'small')
            if inst not in ltsfiles:
                mod, cfg = LTS_INSTANCES[inst]
                mc = run_mc(mod, cfg)
                if not mc['ok']:
                    raise ToolError('model checking of %s failed:\n%s' % (mod, mc.get('tail', '')))
                mcs[inst] = mc
                ltsfiles[inst] = ensure_lts(mod, cfg + '_emit')
            args = ['walk', '--lts', ltsfiles[r['lts']], '--cfg', r['cfg'], '--mode', r['mode'], '--names', NM(r['names'], seed, i), '--b', r['b'],
                    '--frac', r['frac'], '--seed', seed * 1000 + i, '--out', out, '--threads', 8, '--walks', r['walks'], '--len', r['len'],
                    '--max-events', r['max_events']]
            if r['split']:
                args.append('--split')
            if r['light']:
                args.append('--light')
            if r.get('lower_only'):
                args.append('--lower-only')
            if r.get('ops'):
                args += ['--ops', r['ops']]
            s = harness(args)
        elif r['kind'] == 'handles':
            mc = run_mc(r['inst'], r['inst'])
            if not mc['ok']:
                raise ToolError('model checking of %s failed:\n%s' % (r['inst'], mc.get('tail', '')))
            mcs[r['inst']] = mc
            hl = ensure_lts(r['inst'], r['inst'] + '_emit', tags=('EDGE', 'STATE'))
            args = ['handles', '--lts', hl, '--cfg', r['cfg'], '--names', NM(r['names'], seed, i), '--b', r['b'], '--seed', seed * 1000 + i, '--walks', r['walks'],
                    '--len', r['len'], '--out', out, '--depth', r['depth']]
            if r['lower']:
                args.append('--lower-file')
            if r['extreme']:
                args.append('--extreme')
            if r.get('no_zero_read'):
                args.append('--no-zero-read')
            s = harness(args)
        elif r['kind'] == 'tree2':
            mc = run_mc(r['inst'], r['inst'])
            if not mc['ok']:
                raise ToolError('model checking of %s failed:\n%s' % (r['inst'], mc.get('tail', '')))
            mcs[r['inst']] = mc
            l2 = ensure_lts(r['inst'], r['inst'] + '_emit')
            s = harness(['tree2', '--lts', l2, '--cfg1', r['cfg1'], '--cfg2', r['cfg2'], '--names', NM(r['names'], seed, i), '--b', r['b'], '--frac', r['frac'],
                         '--seed', seed * 1000 + i, '--out', out])
        elif r['kind'] == 'awalk':
            mc = run_mc('MC_WalkAsync', 'MC_WalkAsync')
            if not mc['ok']:
                raise ToolError('model checking of MC_WalkAsync failed:\n%s' % mc.get('tail', ''))
            mcs['MC_WalkAsync'] = mc
            live = run_mc('MC_WalkAsync', 'MC_WalkAsync_live')          # liveness: the stream terminates under fair polling
            if not live['ok']:
                raise ToolError('liveness checking of MC_WalkAsync_live failed:\n%s' % live.get('tail', ''))
            mcs['MC_WalkAsync_live'] = live
            mod, cfg = LTS_INSTANCES['deep']
            run_mc(mod, cfg)
            s = harness(['awalk', '--lts', ensure_lts(mod, cfg + '_emit'), '--cfgs', r['cfgs'], '--seed', seed * 1000 + i, '--trees', r['trees'], '--dense', r['dense'],
                         '--pair-frac', r['pair_frac'], '--out', out])
        elif r['kind'] == 'hostile':
            mc = run_mc('MC_Join_q', 'MC_Join_q')
            if not mc['ok']:
                raise ToolError('model checking of MC_Join_q failed:\n%s' % mc.get('tail', ''))
            mcs['MC_Join_q'] = mc
            cases = ensure_lts('MC_Join_q', 'MC_Join_q_emit', tags=('CASE',))
            s = harness(['hostile', '--cfgs', r['cfgs'], '--cases', cases, '--seed', seed, '--sample', r['sample'], '--out', out])
        elif r['kind'] == 'hostiledir':
            mc = run_mc('MC_Join_q', 'MC_Join_q')
            mcs['MC_Join_q'] = mc
            s = harness(['hostiledir', '--cfgs', r['cfgs'], '--out', out])
        elif r['kind'] in ('rootops', 'ahostile'):
            s = harness([r['kind'], '--cfgs', r['cfgs'], '--out', out])
        elif r['kind'] == 'emb':
            for mname in ('MC_ReadOnly', 'MC_Embedded_q'):
                mc = run_mc(mname, mname)
                if not mc['ok']:
                    raise ToolError('model checking of %s failed:\n%s' % (mname, mc.get('tail', '')))
                mcs[mname] = mc
            s = harness(['emb', '--out', out])
        elif r['kind'] == 'twowriters':
            s = harness(['twowriters', '--cfgs', r['cfgs'], '--scripts', r['scripts'], '--seed', seed * 1000 + i, '--b', r['b'], '--out', out])
        elif r['kind'] == 'embdyn':
            mc = run_mc('MC_Embedded_r', 'MC_Embedded_r')
            if not mc['ok']:
                raise ToolError('model checking of MC_Embedded_r failed:\n%s' % mc.get('tail', ''))
            mcs['MC_Embedded_r'] = mc
            cases = ensure_lts('MC_Embedded_r', 'MC_Embedded_r_emit', tags=('CASE',))
            s = harness(['embdyn', '--cases', cases, '--names', NM(r['names'], seed, i), '--out', out])
        elif r['kind'] == 'faults':
            inst = r['lts']
            if inst not in ltsfiles:
                mod, cfg = LTS_INSTANCES[inst]
                mc = run_mc(mod, cfg)
                if not mc['ok']:
                    raise ToolError('model checking of %s failed:\n%s' % (mod, mc.get('tail', '')))
                mcs[inst] = mc
                ltsfiles[inst] = ensure_lts(mod, cfg + '_emit')
            args = ['faults', '--lts', ltsfiles[inst], '--cfg', r['cfg'], '--names', NM(r['names'], seed, i), '--pairs', r['pairs'], '--seed', seed * 1000 + i, '--out', out]
            if r['split']:
                args.append('--split')
            s = harness(args)
        elif r['kind'] == 'conc':
            mname = 'MC_Conc' if r['prop'] == 'C16' else 'MC_Conc17'
            mc = run_mc(mname, mname, workers=16)
            if not mc['ok']:
                raise ToolError('model checking of %s failed:\n%s' % (mname, mc.get('tail', '')))
            mcs[mname] = mc
            if r['prop'] == 'C17':
                live = run_mc('MC_Conc17', 'MC_Conc17_live', workers=8)   # liveness of the model: every program finishes
                if not live['ok']:
                    raise ToolError('liveness checking of MC_Conc17_live failed:\n%s' % live.get('tail', ''))
                mcs['MC_Conc17_live'] = live
            s = harness(['conc', '--prop', r['prop'], '--tier', tier, '--seed', seed, '--out', out, '--threads', 12], timeout=7200)
        elif r['kind'] == 'join':
            mc = run_mc(r['inst'], r['inst'])
            if not mc['ok']:
                raise ToolError('model checking of %s failed:\n%s' % (r['inst'], mc.get('tail', '')))
            mcs[r['inst']] = mc
            cases = ensure_lts(r['inst'], r['inst'] + '_emit', tags=('CASE',))
            s = harness(['join', '--cases', cases, '--out', out, '--seed', seed, '--random', r['random'], '--chains', r['chains']])
            s.update(cfg='join', mode=r['inst'], names='tokens', b=0)
        else:
            raise ToolError('unknown run kind ' + r['kind'])
        s['run'] = i
        s['wall_s'] = round(time.time() - t1, 1)
        summaries.append(s)
    log('group %s: drivers done in %.1fs, %d events' % (g, time.time() - t0, sum(s['events'] for s in summaries)))
    viols = []
    events = 0
    shards = 0
    twall = 0
    # validate all shards of all runs (one pool per trace specification)
    alldir = gdir + '/all'
    v = []
    st = {'shards': 0, 'events': 0, 'tlc_wall_s': 0, 'drift': 0, 'judged': {}}
    byspec = {}
    for i, r in enumerate(runs):
        byspec.setdefault(r.get('tspec', 'Trace_Tree'), []).append(i)
    for tspec, idxs in byspec.items():
        d = '%s/%s' % (alldir, tspec)
        os.makedirs(d, exist_ok=True)
        for i in idxs:
            for f in glob.glob('%s/traces/r%02d/*.ndjson' % (gdir, i)):
                os.rename(f, '%s/r%02d-%s' % (d, i, os.path.basename(f)))
        v1, st1 = validate_traces(d, spec=tspec)
        v += v1
        for k in st:
            if k == 'judged':
                for kk, n in st1.get('judged', {}).items():
                    st['judged'][tspec + '.' + kk] = st['judged'].get(tspec + '.' + kk, 0) + n
            else:
                st[k] = round(st[k] + st1[k], 1)
    for x in v:
        x['group'] = g
        x['run'] = int(os.path.basename(x['trace'])[1:3])
    viols = v
    samples = []
    first = sorted(glob.glob(alldir + '/*/*.ndjson'))
    if first:
        with open(first[0]) as f:
            ops = []
            for n, line in enumerate(f):
                e = json.loads(line)
                if e['ev'] in ('hinit', 'hcall'):
                    ops.append({'cfg': e['cfg'], 'file0': e['file0']} if e['ev'] == 'hinit' else {'o': {k: v for k, v in e['o'].items() if v not in ('', 0, [])}, 'res': e['res'], 'fresh': e['fresh'].get('v')})
                    if len(ops) > 10:
                        break
                    continue
                if e['ev'] in ('init2', 'call2'):
                    ops.append({'cfgs': e['cfgs']} if e['ev'] == 'init2' else {k: e[k] for k in ('op', 'i', 'p', 'j', 'q', 'res')})
                    if len(ops) > 6:
                        break
                    continue
                if e['ev'] == 'hostile':
                    ops.append({k: e[k] for k in ('cfg', 'arg', 'join', 'prefix', 'ucalls')})
                    if len(ops) > 3:
                        break
                    continue
                if e['ev'] == 'awalk':
                    ops.append({k: e[k] for k in ('cfg', 'plan', 'items', 'polls', 'points')})
                    if len(ops) > 2:
                        break
                    continue
                if e['ev'] == 'hist':
                    ops.append({k: e[k] for k in ('cfg', 'init', 'pre_remove', 'progs', 'results', 'schedules', 'bound')})
                    if len(ops) > 2:
                        break
                    continue
                if e['ev'] in ('join', 'chain'):
                    ops.append({k: e[k] for k in e if k in ('ev', 'base', 'arg', 'steps')} | {'sync': e['sync'].get('path'), 'c': e['sync']['c']})
                    if len(ops) > 5:
                        break
                    continue
                if e['ev'] == 'init':
                    if ops:
                        break
                    ops.append({'init': e['cfg'], 'names': e['names'], 'b': e['b']})
                else:
                    ops.append({'op': e['op'], 'p': e['p'], 'q': e['q'], 'c': e['c'], 'res': e['res']['c']} | ({'fault_k': e['k'], 'of_n': e['n'], 'failed_method': e['method']} if e['ev'] == 'fcall' else {}))
                if len(ops) > 12:
                    break
            samples.append(ops)
    keep = set(x['trace'] for x in viols)
    for f in glob.glob(alldir + '/*/*'):
        if f.endswith('.ndjson') and f not in keep:
            os.remove(f)
        if f.endswith('.out') and f[:-4] not in keep:
            os.remove(f)
    res = {'group': g, 'tier': tier, 'seed': seed, 'viols': viols, 'runs': summaries, 'mc': mcs, 'samples': samples,
           'stats': dict(st, driver_wall_s=round(time.time() - t0, 1), segments=sum(s['segments'] for s in summaries)),
           'cached': False}
    json.dump(res, open(rf, 'w'))
    log('group %s: %d events validated by TLC in %.1fs, %d violation records' % (g, st['events'], st['tlc_wall_s'], len(viols)))
    return res


# ----------------------------------------------------------------------------- properties
LEVEL = 'model_checking'
PROPS = {
    'C01': dict(groups=['tree', 'alt', 'ovl']),
    'C02': dict(groups=['lockstep', 'tree', 'handles']),
    'C03': dict(groups=['tree', 'alt', 'ovl', 'handles', 'xfer', 'conc16']),
    'C05': dict(groups=['tree', 'alt', 'ovl', 'handles']),
    'C12': dict(groups=['tree', 'alt', 'ovl', 'join', 'faults', 'hostiledir']),
    'C13': dict(groups=['tree', 'alt', 'ovl', 'join', 'handles', 'hostile', 'hostiledir', 'emb', 'async']),
    'C07': dict(groups=['alt', 'hostile', 'hostiledir']),
    'C08': dict(groups=['ovl', 'times', 'faults']),
    'C09': dict(groups=['ovl', 'ovl_cycles']),
    'C06': dict(groups=['join']),
    'C15': dict(groups=['async', 'join', 'afaults']),
    'C19': dict(groups=['times', 'handles', 'tree', 'alt', 'ovl']),
    'C18': dict(groups=['emb']),
    'C20': dict(groups=['faults', 'afaults']),
    'C16': dict(groups=['conc16']),
    'C17': dict(groups=['conc17']),
    'C11': dict(groups=['xfer', 'tree', 'alt', 'ovl']),
    'C14': dict(groups=['handles']),
    'C04': dict(groups=['handles', 'tree', 'ovl']),
    'C10': dict(groups=['ovl_cycles', 'ovl', 'faults']),
}


def sig_key(prop, v, conjs):
    s = v.get('sig', {})
    return json.dumps([prop, sorted(conjs), s.get('op'), s.get('kind'), s.get('target'), s.get('parent'), s.get('dest'),
                       s.get('where'), s.get('lower_kids'), s.get('got'), s.get('want'), s.get('f'), sorted(map(str, s.get('diff', [])))])


REQUIRED_JUDGED = {
    'C01': ['Trace_Tree.spec_ok', 'Trace_Tree.spec_fail', 'Trace_Tree.pinned_class'],
    'C02': ['Trace_Tree.agree'],
    'C03': ['Trace_Tree.spec_ok', 'Trace_Tree.inv'],
    'C05': ['Trace_Tree.call', 'Trace_Tree.init'],
    'C07': ['Trace_Tree.twin', 'Trace_Tree.view', 'Trace_Tree.ondisk'],
    'C08': ['Trace_Tree.lower', 'Trace_Tree.fault'],
    'C09': ['Trace_Tree.union', 'Trace_Tree.lower', 'Trace_Tree.level_b'],
    'C10': ['Trace_Tree.union', 'Trace_Tree.lower'],
    'C12': ['Trace_Tree.err_labelled', 'Trace_Tree.fault_err'],
    'C18': ['Trace_Tree.truth'],
    'C19': ['Trace_Tree.settime_ok'],
    'C20': ['Trace_Tree.fault', 'Trace_Tree.fault_err', 'Trace_Tree.observer_fault'],
}


def decide(prop, spec, results, tier, seed, t0):
    known = load_known()
    relevant = {}
    others = {}
    for r in results:
        for v in r['viols']:
            if v.get('secondary'):
                continue
            mine = [c for c in v['conjs'] if prop in props_of(c, v.get('sig', {}), r['group'])]
            if not mine:
                # a violated conjunct none of whose properties has this group among its groups would never be
                # reported by any check: it is reported here (the group belongs to this property's check)
                mine = [c for c in v['conjs']
                        if not any(r['group'] in PROPS[p]['groups'] for p in props_of(c, v.get('sig', {}), r['group']) if p in PROPS)]
                # (unless it is a listed finding of the property it belongs to)
                if mine and any(match_known(p, v, known) for c in mine for p in props_of(c, v.get('sig', {}), r['group'])):
                    mine = []
            for c in v['conjs']:
                for p in props_of(c, v.get('sig', {}), r['group']):
                    if p != prop:
                        others[p] = others.get(p, 0) + 1
            if mine:
                k = sig_key(prop, v, mine)
                relevant.setdefault(k, []).append(dict(v, conjs=mine))
    nviol = 0
    printed_known = set()
    for k, vs in sorted(relevant.items()):
        v = vs[0]
        kf = match_known(prop, v, known)
        if kf:
            if kf['id'] not in printed_known:
                printed_known.add(kf['id'])
                print('KNOWN-FINDING: property=%s %s (%s)' % (prop, kf['id'], kf['what']))
            continue
        nviol += 1
        if nviol <= 12:
            path = write_replay(prop, nviol, v)
            print('VIOLATION property=%s replay=%s' % (prop, path))
            print('  conjuncts=%s signature=%s occurrences=%d' % (v['conjs'], json.dumps(v.get('sig')), len(vs)))
    # vacuity guard: how often TLC actually applied each part of the contract (counted by the trace specification)
    judged = {}
    for r in results:
        for k, n in r['stats'].get('judged', {}).items():
            judged[k] = judged.get(k, 0) + n
    missing = [k for k in REQUIRED_JUDGED.get(prop, []) if judged.get(k, 0) == 0]
    if missing:
        raise ToolError('vacuous run for %s: TLC never applied %s' % (prop, missing))
    mc_states = sum(m['states'] for r in results for m in r['mc'].values())
    mc_trans = sum(m['transitions'] for r in results for m in r['mc'].values())
    events = sum(r['stats']['events'] for r in results)
    segs = sum(r['stats']['segments'] for r in results)
    distinct = sum(s.get('distinct_state_ops', 0) for r in results for s in r['runs'])
    cov = {'states': mc_states, 'transitions': mc_trans, 'traces_validated_against_impl': segs,
           'evaluations': events, 'distinct_nontrivial': distinct,
           'rule': 'events = public calls executed on the real code, each judged by TLC (Trace_Tree) with every Level-A conjunct; '
                   'distinct_nontrivial = distinct (configuration run, model state, operation+arguments) triples executed (LTS edges)',
           'samples': [s for r in results for s in r['samples']][:3],
           # complete enumeration of a finite space only where the driver really executes every emitted case
           'exhaustive': tier == 'thorough' and prop in ('C06', 'C18'),
           'groups': [{'group': r['group'], 'cached': r.get('cached', False), 'events': r['stats']['events'],
                       'runs': [{k: s.get(k) for k in ('cfg', 'mode', 'names', 'b', 'events', 'segments', 'edges_run', 'fast_disagreements', 'distinct_state_ops')} for s in r['runs']]} for r in results],
           'model_checking': {k: {kk: m.get(kk) for kk in ('module', 'states', 'transitions', 'action_coverage', 'cached')} for r in results for k, m in r['mc'].items()},
           'known_findings_seen': sorted(printed_known), 'other_properties_seen': others,
           'level_b_drift_records': sum(r['stats'].get('drift', 0) for r in results),
           'judged_by_tlc': judged,
           'distinct_violation_signatures': nviol}
    if prop in ('C01', 'C03', 'C09'):
        try:
            cov['unbounded_proofs_tlapm'] = run_proofs()
        except Exception as ex:           # informational only
            cov['unbounded_proofs_tlapm'] = {'ok': False, 'error': str(ex)[:300]}
        if not cov['unbounded_proofs_tlapm'].get('ok'):
            print('NOTE: tlapm did not re-establish the unbounded Level-A theorems (specification-level, no verdict depends on it)')
    write_evidence(prop, tier, seed, LEVEL, cov, time.time() - t0, nviol,
                   ['TLC and the Json/IOUtils community modules are trusted', 'the harness projection (observer, name/byte tables) is trusted to record what the code returned',
                    'bounded universe: %s' % ('6 paths, names {a,b}, depth 2, contents of <= 2 symbols')])
    return 1 if nviol else 0


def replay(path):
    """re-execute a recorded case on the real code and let TLC judge it again"""
    rep = json.load(open(path))
    build_harness()
    out = WORK + '/replay'
    shutil.rmtree(out, ignore_errors=True)
    kind = (rep.get('sig') or {}).get('kind')
    print('replaying', path)
    print('  property %s  conjuncts %s' % (rep.get('property'), rep.get('conjs')))
    print('  signature', json.dumps(rep.get('sig')))
    if kind == 'conc' and rep.get('conc_spec'):
        sp = WORK + '/replay_spec.json'
        json.dump(rep['conc_spec'], open(sp, 'w'))
        r = harness(['conc1', '--spec', sp, '--out', out])
        print('  schedules explored: %d; distinct histories:' % r['schedules'])
        for h in r['histories']:
            print('    results=%s final=%s' % (h['results'], [(x['p'], x['k']) for x in h['final'] if x['k'] != 'none']))
        viols, st = validate_traces(out, spec='Trace_Lin')
    elif rep.get('ops') is not None and rep.get('cfg') and rep.get('universe') and kind not in ('join', 'handles', 'x2', 'confine', 'awalk', 'conc'):
        sp = WORK + '/replay_spec.json'
        json.dump(rep, open(sp, 'w'))
        r = harness(['replay', '--spec', sp, '--out', out])
        for s in r['steps']:
            print('    %-14s p=%s q=%s c=%s -> %s   present: %s' % (s['op'], '/'.join(s['p']), '/'.join(s['q']), s['c'], s['res']['c'], s['present_after']))
        viols, st = validate_traces(out, spec='Trace_Tree')
    else:
        print('  recorded events of the failing segment (re-run the check with the same VERIF_SEED to reproduce):')
        for e in rep.get('events', [])[-3:]:
            print('   ', json.dumps(e)[:1500])
        return 0
    if not viols:
        print('  TLC: the replayed segment is ACCEPTED (no conjunct fails)')
        return 0
    for v in viols:
        print('  TLC: event %d fails %s  signature=%s' % (v['l'], v['conjs'], json.dumps(v.get('sig'))))
    return 1


# ----------------------------------------------------------------------------- manifest texts
_LVL = ('TLC explores the complete state space of the bounded Level-A model (every state x operation x argument), '
        'emits it as a labelled transition system, the harness executes those edges (quick: seeded sample; thorough: all) and random walks on the '
        'real code for every configuration, and TLC validates every recorded event against the specification with every conjunct. ')
_NOTE = ('Trusted: TLC + community modules; the harness observer/concretisation tables; bounded universe (6 paths, depth 2, contents <= 2 symbols) with '
         'name maps (ascii, prefix-sharing, dotted, multi-byte, long) and block sizes up to 65537 as homomorphic concretisations.')
MANIFEST_TEXT = {
    'C06': dict(level='TLC checks JoinImpl (the transcription of join_internal) = Resolve (declarative lexical resolution) and the canonical-form, root-clamp, absolute-restart, '
                      'parent/filename and composition laws for ALL argument strings up to the length bound over {/, ., letter, multi-byte letter} x 4 bases, emits every case, and the harness '
                      'executes each case (plus seeded random strings up to 64 tokens and join/parent/root chains) on VfsPath and AsyncVfsPath; TLC validates every recorded result against Level A.',
                note='Trusted: TLC; token concretisation tables (3 variants with 1-4 byte characters). Exhaustive to length 6 (quick) / 8 (model) and 7 (replayed) in thorough.',
                technique='TLA+ exhaustive enumeration of join arguments (MC_Join) + TLC trace validation (Trace_Join)', ref='DESIGN.md 6 C06'),
    'C01': dict(level=_LVL + 'Conjuncts class/value/effect: outcome class in the allowed set and the full observation equals the tree Level A prescribes, after every call.',
                note=_NOTE, technique='TLA+ Level-A model checking + LTS replay + TLC trace validation', ref='DESIGN.md 6 C01'),
    'C02': dict(level=_LVL + 'MemoryFS and PhysicalFS are both judged by the same deterministic Level A on the same LTS edges (and by the same cursor machines on the handle LTS), so agreement follows on the specified regime; in addition lock-step runs execute every call on MemoryFS and PhysicalFS side by side and TLC (conjunct agree) compares success/failure, the pinned classes and the complete observation of both, also where Level A leaves the outcome open (failed composites).',
                note=_NOTE, technique='TLA+ Level-A model checking + LTS replay on mem and phys + TLC trace validation', ref='DESIGN.md 6 C02'),
    'C03': dict(level=_LVL + 'Conjunct wellformed is evaluated by TLC on the observed record of every event over the unrestricted operation domain. For unbounded universes the TLA+ proof system proves that every Level-A operation preserves well-formedness (spec/proofs, ApplyWF) and that the overlay view is always well-formed (ViewWellFormedAlways). Orphans produced by interleavings are covered by running the concurrent exploration of C16 (conjunct wellformed on every explored history).',
                note=_NOTE, technique='TLA+ invariant WellFormed (model) + WellFormedObs on every trace event', ref='DESIGN.md 6 C03'),
    'C05': dict(level=_LVL + 'Conjunct observers (ObserversAgree, WalkAgrees) relates the observers to each other on every event without reference to the model state; the handle walks add the states a stale write handle can leave behind.',
                note=_NOTE, technique='TLA+ ObserversAgree on every trace event', ref='DESIGN.md 6 C05'),
    'C07': dict(level=_LVL + 'Altroot configurations execute every call also as the twin call on P/q in a second identical world; TLC checks twin equality, confinement of the recorded inner calls and that the outside snapshot is unchanged. '
                'Confinement against hostile path expressions: a catalogue of escapes ("..", absolute and doubled-slash segments, encoded dots, ...) plus a seeded sample of the argument strings TLC enumerated for C06 is joined onto the root of altroot filesystems '
                '(P of depth 1-3 over memory, physical, altroot, overlay) and of a PhysicalFS inside a sandbox with canaries; 16 operations are applied to each result; TLC (Trace_Confine) checks that every inner call stays below P, the outside snapshot '
                '(std::fs for the sandbox) is unchanged and no read returned canary bytes. For phys and alt(P,phys) every event also carries what std::fs finds below the backing directory and TLC requires it to equal the observed tree (ondisk); '
                'operations on the altroot\'s own root are compared with the same operation on P of the underlying filesystem (twinroot). MC_Altroot_q model-checks the re-rooting law of Level A.',
                note=_NOTE, technique='TLA+ trace validation with twin execution (TwinEqual, Confined, OutsideUnchanged, OnDisk) + MC_Altroot re-rooting law', ref='DESIGN.md 6 C07'),
    'C08': dict(level=_LVL + 'Every overlay layer is wrapped in a recording filesystem; TLC checks on every event that lower layers are unchanged (structure, bytes, times) and that observers issue no mutating call.',
                note=_NOTE, technique='TLA+ trace validation (LowerUnchanged, ObserversPure) over recorded layer snapshots and call logs', ref='DESIGN.md 6 C08'),
    'C09': dict(level=_LVL + 'The init event carries the layer snapshots and the whiteout markers of the write layer (initial states include write layers that were used before); TLC computes the marker-aware Merge(layers, wo) and judges the overlay by the same Level-A actions from then on. MC_Overlay_q / MC_Overlay_3 model-check the Level-B overlay algorithm against Level A from ALL layer contents; the DRIFT check binds that algorithm to the code; unbounded theorems about it are proved with tlapm (spec/proofs/OverlayProofs).',
                note=_NOTE, technique='TLA+ Merge(layers) + Level-A trace validation on pre-populated overlays', ref='DESIGN.md 6 C09'),
    'C10': dict(level=_LVL + 'A dedicated driver removes entries that live in lower layers (file, emptied directory, remove_dir_all of a subtree), performs unrelated operations, '
                're-creates the path (changing its type) and repeats three cycles on 2-4 layers; because the observation covers the whole universe and records unknown listed names as foreign, '
                'a resurrected entry, a non-empty re-created directory or a visible marker fails the effect/observers conjuncts.',
                note=_NOTE + ' Names ending in _wo and .whiteout are never generated (reserved by the overlay, excluded by the property).',
                technique='TLA+ Level-A trace validation of removal/re-creation cycles over pre-populated lower layers', ref='DESIGN.md 6 C10'),
    'C14': dict(level='TLC explores every reachable state of the bounded read/write cursor machines (VfsHandles: buffers <= 3 symbols, seeks from Start/Current/End with negative, zero and '
                'past-the-end offsets, read sizes 0/1/2/5, remove while open) and emits the LTS; the harness walks it coverage-guided (untested edges first) on handles obtained from memory, physical, '
                'altroot and overlay (incl. copy-up from a lower layer) with block sizes scaling offsets and lengths, ending walks with extreme-offset seeks and with scripts of seeks near multiples of 2^62 whose results TLC judges by pair arithmetic (no wrap-around, exact target); TLC validates every return value and '
                'what a fresh reader sees after every call (Trace_Handles).',
                note='Trusted: TLC; block concretisation (uniform block size is a homomorphism for read/write/seek). Seeks on append handles are not generated on physical files (O_APPEND, excluded by the property). Short reads are accepted if non-empty and in order.',
                technique='TLA+ cursor-machine model checking (MC_Handles) + LTS replay on real handles + TLC trace validation', ref='DESIGN.md 6 C14'),
    'C04': dict(level='Byte fidelity is decided by three TLC-validated sources: (1) the handle LTS walks (write/seek/flush/append/drop scripts; published bytes re-read by a fresh reader after every call, metadata length), '
                'with block sizes 1..65537 so that abstract lengths <= 4 cover concrete lengths around the 8 KiB copy buffer and above 64 KiB, non-UTF-8 patterns, overlay copy-up from lower layers; '
                '(2) the tree/overlay walks whose effect conjunct compares the bytes of every file of the universe after create/append/copy/move with rotating read-buffer sizes; (3) DirLenZero in ObsMatches.',
                note=_NOTE, technique='TLA+ writer machine (VfsHandles) + Level-A content transformers; TLC trace validation of bytes', ref='DESIGN.md 6 C04'),
    'C11': dict(level=_LVL + 'Composite effects (create_dir_all, remove_dir_all, copy/move of files and directories incl. copy_dir counts) are atomic Level-A operators; '
                'for transfers ACROSS instances TLC explores all pairs of well-formed trees of a 3-path universe x all transfers (MC_Tree2, 784 states, 51856 edges) and the harness replays a seeded sample '
                '(thorough: 25%) of those edges for every ordered pair of configurations (memory, physical, altroot, overlay incl. sources served from a lower layer), observing both filesystems completely.',
                note=_NOTE, technique='TLA+ two-instance transfer model (VfsTree2/MC_Tree2) + LTS replay on ordered pairs of backends + TLC trace validation (Trace_Tree2)', ref='DESIGN.md 6 C11'),
    'C15': dict(level='(i) The async filesystems (memory, physical, altroot, overlay and stackings) are driven through AsyncVfsPath on a tokio current-thread runtime by the same LTS walks and observed by the same observer as the sync '
                'side, and TLC judges their traces by the SAME Level A (so outcomes, classes, trees and bytes equal the sync contract); (ii) async read handles and write handles run the handle LTS (Trace_Handles); '
                '(iii) poll schedules: TLC model-checks WalkDirIterator::poll_next with an adversarial Pending environment (MC_WalkAsync: all trees <= 5 entries, all listing orders, <= 3 pendings: equals the sync walk), and on the code a PendingFS '
                'wrapper makes read_dir / metadata / the directory stream return Pending per plan while the harness polls walk_dir by hand (every single placement of weight 1-2, sampled pairs, dense plans); TLC (Trace_WalkAsync) checks completeness, '
                'no duplicates, parents first, termination; (iv) join/parent/filename/extension of AsyncVfsPath are compared in the C06 traces.',
                note=_NOTE + ' Timestamp setters of AsyncMemoryFS (not implemented by design) and seeks on async write handles (Write only) are outside the property.',
                technique='TLA+ Level-A trace validation of the async twins + MC_WalkAsync model checking + pending-plan replay (Trace_WalkAsync)', ref='DESIGN.md 6 C15'),
    'C16': dict(level='A cooperative scheduler drives real threads through the yield points placed (feature verif-hooks) before every lock acquisition of MemoryFS, so a schedule is a sequence of thread choices; '
                'stateless DFS explores EVERY interleaving of all 2 x 1 programs over {a, a/b, a/c} x 5 initial maps (quick: seeded 60%/15% sample) and preemption-bounded (2; thorough 3) 2x2, 2x3, 3x1 programs, '
                'also through an altroot. For every program all sequential call orders are executed on the same code; TLC (Trace_Lin) decides for every distinct history whether some sequential order '
                'explains results and final state, plus well-formedness, no panic, no deadlock. Write handles are two calls (open, close), as the API makes them.',
                note='Trusted: TLC; the scheduler (one thread runs between yield points; yield points are outside critical sections); result granularity ok/err + returned values (not error kinds).',
                technique='schedule exploration at lock granularity (hooks) + measured sequential reference + TLC trace validation (Trace_Lin); TLA+ model Conc for the design-level claim', ref='DESIGN.md 6 C16'),
    'C17': dict(level='Same scheduler: concurrent create_dir_all on all pairs (and seeded triples/quadruples) of 7 targets of depth 1-4 sharing prefixes of every length, on memory, altroot, physical (yield point at PhysicalFS::create_dir), '
                'overlays over memory/physical, fresh and with a prefix that was removed earlier (whiteout marker present), altroot over overlay; exhaustive on memory/altroot/physical pairs, preemption bound 1 (quick) / 2 (thorough) on overlays. '
                'TLC checks on every distinct history: all calls ok, every requested path and ancestor is a directory, tree well-formed, no panic/deadlock.',
                note='Trusted: TLC; the scheduler. PhysicalFS interleavings are explored at create_dir granularity (the OS is not modelled below the syscall boundary).',
                technique='schedule exploration (hooks) + TLC trace validation (Trace_Lin)', ref='DESIGN.md 6 C17'),
    'C18': dict(level='EmbeddedFS over a committed fixture folder (nested, dotted, multi-byte, prefix-sharing names a.txt / a.txt.dir, an empty file, non-UTF-8 bytes) is judged by Level A in read-only mode: '
                'the init event carries the observation of a PhysicalFS on a copy of the same folder as ground truth (conjunct truth: existence, type, length, bytes, listings, walks for every path of a 21-path universe incl. absent siblings, '
                'prefixes of names and paths below files, and the root); then EVERY mutating operation is applied to EVERY universe path (transfers to 4 destinations, 3 timestamp fields) and TLC checks the class '
                '(not_supported whenever the path layer pre-checks pass) and that the complete observation is unchanged. TLC also model-checks the read-only contract (MC_ReadOnly: refused, unchanged) on the bounded universe.',
                note='Trusted: TLC; rust-embed derive on the fixture; the fixture is finite, so the (path x operation) space is enumerated completely.',
                technique='TLA+ read-only Level A (ReadOnlyOp) + exhaustive (path x operation) trace validation against a PhysicalFS ground truth', ref='DESIGN.md 6 C18'),
    'C19': dict(level=_LVL + 'Timestamps: the harness records the metadata of the target immediately before and after every call; for every set_*_time event TLC (TimesOK) checks that the field reads back exactly the value set '
                '(tick table: epoch, 1 ns, pre-epoch, years 2100 and 2400, sub-second parts), that the other settable fields are unchanged, that an unsupported or failing setter changes nothing and reports the pinned class, and that the tree and all bytes are unchanged '
                '(effect conjunct); appends must preserve the creation time where it is settable. A dedicated driver interleaves setters of all three fields in random orders with writes on files and directories on memory, physical, altroot and overlays (entries in lower layers: copy-up).',
                note=_NOTE + ' Fields a configuration cannot set (e.g. creation time on physical) are not required to survive an adapter copy-up.',
                technique='TLA+ TimesOK on pre/post metadata of every setter and append event (trace validation)', ref='DESIGN.md 6 C19'),
    'C20': dict(level='Fault enumeration judged by TLC: a FaultFS wrapper (public FileSystem trait) makes the k-th call into a base filesystem return an I/O error. For seeded (model state, operation) pairs of the Level-A LTS '
                '(biased to composites and adapter operations) and for observer operations (exists, is_dir, is_file, metadata, read_dir, walk_dir, read_to_string), the fault-free run is probed for its call count n and the operation is re-run '
                'on an identically rebuilt world for EVERY k in 1..n, on plain, altroot, overlay (fault in the upper or in a lower layer, 2-3 layers) and nested stackings. TLC (Trace_Tree/TrFault) accepts success only with the complete Level-A effect and value, '
                'and requires: no panic, namespace still a tree, lower layers unchanged, observers change nothing.',
                note=_NOTE + ' One fault per operation; the fault is an Err return of a trait method (handles returned by the base filesystem are not faulted).',
                technique='exhaustive fault-position sweep (FaultFS) + TLA+ Level-A trace validation (TrFault)', ref='DESIGN.md 6 C20'),
    'C12': dict(level=_LVL + 'Conjunct errpath: every error of every call and observer names a path of the caller namespace related to the call; pinned classes are part of conjunct class.',
                note=_NOTE, technique='TLA+ ErrPathOK on every failing call/observer of every trace event', ref='DESIGN.md 6 C12'),
    'C13': dict(level=_LVL + 'Every harness call runs under catch_unwind; panic is an outcome class no trace action accepts, so every trace of every group also decides C13: wrong-type calls on every path, the root as observer target, '
                'extreme-offset seeks / zero-length reads / drops of detached handles (handle LTS), all join strings (C06 traces), hostile path expressions, EmbeddedFS, and PhysicalFS directories prepared with std::fs '
                '(non-UTF-8 names, dangling symlinks, symlink loops) through plain, altroot and overlay configurations.',
                note=_NOTE, technique='panic as outcome class in TLC-validated traces', ref='DESIGN.md 6 C13'),
}
NOT_YET = {}
