#!/opt/veriftools/pyvenv/bin/python
import json, jsonschema, glob, sys
jsonschema.validate(json.load(open('/verif/MANIFEST.json')), json.load(open('/root/.vp/MANIFEST.schema.json')))
print('manifest valid')
sch = json.load(open('/root/.vp/EVIDENCE.schema.json'))
for f in sorted(glob.glob('/verif/evidence/C*.json')):
    try:
        jsonschema.validate(json.load(open(f)), sch); print('evidence valid', f)
    except Exception as e:
        print('EVIDENCE INVALID', f, str(e)[:300])
